//! Gradient obligations shared by C01 (graphs), C02 (single operations), C03 (broadcast
//! operands): run a program on corgi, differentiate with `backward(seed)`, and compare every
//! leaf's gradient with the forward-mode oracle  Σ_j seed_j · ∂result_j/∂leaf_i.
use crate::alg::Alg;
use crate::chk;
use crate::programs::Program;
use crate::refmodel::{self, T};
use crate::source::{Dom, Source};
use crate::util::*;
use corgi::array::Array;
use corgi::numbers::Float;

#[derive(Clone, Copy)]
pub struct Leaf {
    pub d: &'static [usize],
    pub dom: Dom,
    pub tracked: bool,
    /// made trackable with `start_tracking()` on the handle instead of `.tracked()`
    pub via_start: bool,
}

pub const fn leaf(d: &'static [usize], dom: Dom, tracked: bool) -> Leaf {
    Leaf { d, dom, tracked, via_start: false }
}

/// a leaf that is tracked through `start_tracking()` (the hand-update idiom of the suite)
pub const fn leaf_st(d: &'static [usize], dom: Dom) -> Leaf {
    Leaf { d, dom, tracked: true, via_start: true }
}

#[derive(Clone, Copy, PartialEq, Eq)]
pub enum Seed {
    /// `backward(None)`
    Omitted,
    /// `backward(Some(seed))`, every element symbolic in the domain
    Explicit(Dom),
}

/// tolerance for the obligations that involve inexact constants (exp/ln tables, 1/3, …)
#[cfg(not(feature = "f32"))]
pub const TOL: Float = 1e-9;
#[cfg(feature = "f32")]
pub const TOL: Float = 1e-4;

pub fn close(a: Float, b: Float) -> bool {
    let d = if a > b { a - b } else { b - a };
    let m = {
        let x = if a < 0.0 { -a } else { a };
        let y = if b < 0.0 { -b } else { b };
        let z = if x > y { x } else { y };
        if z > 1.0 {
            z
        } else {
            1.0
        }
    };
    d <= TOL * m
}

#[inline(always)]
pub fn same(a: Float, b: Float, inexact: bool) -> bool {
    if inexact {
        close(a, b)
    } else {
        // NaN never compares equal to itself; the full-width obligations range over every bit
        // pattern, where "both sides are NaN" is agreement
        a == b || (a != a && b != b)
    }
}

pub struct Built {
    pub arrays: Vec<Array>,
    pub refs: Vec<T>,
    /// first direction of each leaf (None for untracked leaves)
    pub first_dir: Vec<Option<usize>>,
    pub ndir: usize,
}

/// draws the leaf values and builds the corgi leaves and their reference twins
pub fn build<S: Source>(s: &mut S, leaves: &[Leaf]) -> Built {
    let mut ndir = 0;
    for l in leaves {
        if l.tracked {
            ndir += refmodel::numel(l.d);
        }
    }
    let mut arrays = Vec::with_capacity(leaves.len());
    let mut refs = Vec::with_capacity(leaves.len());
    let mut first_dir = Vec::with_capacity(leaves.len());
    let mut next = 0;
    for l in leaves {
        let n = refmodel::numel(l.d);
        let v = s.vals(n, l.dom);
        let a = Array::from((l.d.to_vec(), v.clone()));
        if l.tracked {
            if l.via_start {
                a.start_tracking();
                arrays.push(a);
            } else {
                arrays.push(a.tracked());
            }
            refs.push(T::var(l.d, v, next, ndir));
            first_dir.push(Some(next));
            next += n;
        } else {
            arrays.push(a);
            refs.push(T::konst(l.d, v, ndir));
            first_dir.push(None);
        }
    }
    Built {
        arrays,
        refs,
        first_dir,
        ndir,
    }
}

/// forward agreement of a corgi node with its reference twin
pub fn check_forward(a: &Array, r: &T, inexact: bool) {
    chk!(dims_eq(a.dimensions(), &r.d), "[fwd:dims] result dimensions differ from the definition");
    chk!(a.values().len() == r.v.len(), "[fwd:len] result length differs from the definition");
    for i in 0..r.v.len() {
        chk!(same(a.values()[i], r.v[i], inexact), "[fwd:value] result element differs from the definition");
    }
}

/// draws the seed; returns (argument for backward, the values the oracle weighs with)
pub fn draw_seed<S: Source>(s: &mut S, root: &Array, seed: Seed) -> (Option<Array>, Vec<Float>) {
    let n = root.values().len();
    match seed {
        Seed::Omitted => (None, vec![1.0; n]),
        Seed::Explicit(dom) => {
            let v = s.vals(n, dom);
            (Some(Array::from((root.dimensions().to_vec(), v.clone()))), v)
        }
    }
}

/// every tracked leaf holds Jᵀ·seed of `rref`, every untracked leaf holds nothing
pub fn check_gradients(b: &Built, leaves: &[Leaf], rref: &T, seedv: &[Float], scale: Float, inexact: bool) {
    let expect = refmodel::vjp_all(rref, seedv);
    for (li, l) in leaves.iter().enumerate() {
        let g = b.arrays[li].gradient();
        match b.first_dir[li] {
            None => {
                chk!(g.is_none(), "[grad:untracked-leaf] an untracked leaf received a gradient");
            }
            Some(first) => {
                chk!(g.is_some(), "[grad:missing] a tracked leaf received no gradient");
                if let Some(g) = g.as_ref() {
                    chk!(dims_eq(g.dimensions(), l.d), "[grad:dims] gradient dimensions differ from the array's");
                    let n = refmodel::numel(l.d);
                    chk!(g.values().len() == n, "[grad:len] gradient length differs from the array's");
                    for i in 0..n {
                        let e = scale * expect[first + i];
                        chk!(
                            same(g.values()[i], e, inexact),
                            "[grad:value] gradient element differs from the seed-weighted sum of partial derivatives"
                        );
                    }
                }
            }
        }
    }
}

/// The obligation: forward value and gradients of one program.
pub fn grad<P: Program, S: Source>(s: &mut S, p: &P, leaves: &[Leaf], seed: Seed, inexact: bool) {
    grad_passes(s, p, leaves, seed, inexact, 1)
}

/// Same, with `passes` backward passes on the same result, each with its own seed: the
/// stored gradient must be the sum (gradients are linear in the seed, so the oracle weighs
/// with the summed seed).
pub fn grad_passes<P: Program, S: Source>(s: &mut S, p: &P, leaves: &[Leaf], seed: Seed, inexact: bool, passes: usize) {
    let b = build(s, leaves);
    let nodes = p.run::<Array>(&b.arrays);
    let rnodes = p.run::<T>(&b.refs);
    let root = &nodes[nodes.len() - 1];
    let rref = &rnodes[rnodes.len() - 1];
    check_forward(root, rref, inexact);
    let (arg, mut total) = draw_seed(s, root, seed);
    root.backward(arg);
    for _ in 1..passes {
        let (arg, seedv) = draw_seed(s, root, seed);
        for j in 0..total.len() {
            total[j] += seedv[j];
        }
        root.backward(arg);
    }
    check_gradients(&b, leaves, rref, &total, 1.0, inexact);
    witness();
    forget((b.arrays, nodes));
}
