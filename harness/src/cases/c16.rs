//! C16 — construction, row-major layout, indexing and equality are consistent.
//! Dimensions and indices are *symbolic* here (DESIGN.md §2.2-1: the pure index arithmetic
//! keeps symbolic dimensions).
use crate::chk;
use crate::source::{Dom, Source};
use crate::util::*;
use corgi::arr;
use corgi::array::Array;
use corgi::numbers::Float;

/// zeros constructor with symbolic dims in 1..=max: dims kept, every element 0, and
/// `a[multi-index]` is the element at the row-major (Horner) offset, `a[flat]` at `flat`.
pub fn index<S: Source>(s: &mut S, rank: usize, max: usize) {
    let mut dims = Vec::with_capacity(rank);
    let mut idx = Vec::with_capacity(rank);
    let mut horner = 0usize;
    let mut n = 1usize;
    for _ in 0..rank {
        let d = 1 + s.size(max);
        let i = s.size(d);
        dims.push(d);
        idx.push(i);
        horner = horner * d + i;
        n *= d;
    }
    let a = Array::from(dims.clone());
    chk!(dims_eq(a.dimensions(), &dims), "[c16:zeros-dims] zeros constructor changed the dimensions");
    chk!(a.values().len() == n, "[c16:zeros-len] zeros constructor has the wrong element count");
    let base = a.values().as_ptr() as usize;
    let e = &a[idx] as *const Float as usize;
    chk!(e == base + horner * std::mem::size_of::<Float>(), "[c16:multi-index] multi-index does not address the row-major element");
    let flat = s.size(n);
    let f = &a[flat] as *const Float as usize;
    chk!(f == base + flat * std::mem::size_of::<Float>(), "[c16:flat-index] flat index does not address the row-major element");
    chk!(a[flat] == 0.0, "[c16:zeros-value] zeros constructor produced a non-zero element");
    witness();
    forget(a);
}

/// a flat index at or beyond the element count is refused
pub fn flat_oob<S: Source>(s: &mut S, rank: usize, max: usize) {
    let mut dims = Vec::with_capacity(rank);
    let mut n = 1usize;
    for _ in 0..rank {
        let d = 1 + s.size(max);
        dims.push(d);
        n *= d;
    }
    let a = Array::from(dims);
    let i = n + s.size(4);
    let v = a[i];
    forget((a, v));
    chk!(false, "[c16:refusal-missing] an out-of-range flat index was accepted");
}

/// `Array::from((dims, values))` with symbolic dims (0 allowed) against a value vector of
/// `len` elements (concrete per obligation - vectors of symbolic length do not encode within
/// reach): succeeds iff every extent >= 1 and the product equals the length (`expect_ok`
/// selects which side of the iff this obligation decides).
pub fn from_dims_values<S: Source>(s: &mut S, rank: usize, max: usize, len: usize, expect_ok: bool) {
    let mut dims = Vec::with_capacity(rank);
    let mut n = 1usize;
    let mut all_pos = true;
    for _ in 0..rank {
        let d = s.size(max + 1);
        all_pos &= d >= 1;
        dims.push(d);
        n *= d;
    }
    let valid = all_pos && n == len;
    #[cfg(kani)]
    kani::assume(valid == expect_ok);
    #[cfg(not(kani))]
    assert!(valid == expect_ok, "[replay] recorded values violate the assumption");
    let mut values: Vec<Float> = Vec::with_capacity(len);
    for k in 0..len {
        values.push(k as Float);
    }
    let a = Array::from((dims.clone(), values));
    if expect_ok {
        chk!(dims_eq(a.dimensions(), &dims), "[c16:from-dims] constructor changed the dimensions");
        chk!(a.values().len() == len, "[c16:from-len] constructor changed the element count");
        let k = s.size(len);
        chk!(a.values()[k] == k as Float, "[c16:from-values] constructor changed the row-major values");
        witness();
        forget(a);
    } else {
        forget(a);
        chk!(false, "[c16:refusal-missing] invalid dimensions / element count were accepted");
    }
}

/// the zeros constructor (dimensions alone) refuses a zero dimension
pub fn zeros_zero_dim<S: Source>(s: &mut S, rank: usize) {
    let mut dims = Vec::with_capacity(rank);
    let mut any_zero = false;
    for _ in 0..rank {
        let d = s.size(4);
        any_zero |= d == 0;
        dims.push(d);
    }
    #[cfg(kani)]
    kani::assume(any_zero);
    #[cfg(not(kani))]
    assert!(any_zero, "[replay] recorded values violate the assumption");
    let a = Array::from(dims);
    forget(a);
    chk!(false, "[c16:refusal-missing] a zero dimension was accepted by the zeros constructor");
}

/// flat vector constructor and nested construction (`arr!`, depth 1..3) give the nested
/// dimensions and row-major values
pub fn nested<S: Source>(s: &mut S, depth: usize) {
    let v = s.vals(8, Dom::D4);
    let a = match depth {
        1 => arr![v[0], v[1], v[2]],
        2 => arr![arr![v[0], v[1], v[2]], arr![v[3], v[4], v[5]]],
        _ => arr![
            arr![arr![v[0], v[1]], arr![v[2], v[3]]],
            arr![arr![v[4], v[5]], arr![v[6], v[7]]]
        ],
    };
    let (dims, n): (&[usize], usize) = match depth {
        1 => (&[3], 3),
        2 => (&[2, 3], 6),
        _ => (&[2, 2, 2], 8),
    };
    chk!(dims_eq(a.dimensions(), dims), "[c16:nested-dims] nested construction gave the wrong dimensions");
    chk!(a.values().len() == n, "[c16:nested-len] nested construction gave the wrong element count");
    for i in 0..n {
        chk!(a.values()[i].to_bits() == v[i].to_bits(), "[c16:nested-values] nested construction is not row-major");
    }
    if depth == 2 {
        chk!(a[vec![1, 2]] == v[5], "[c16:nested-index] indexing a nested array");
    }
    witness();
    forget(a);
}

/// nested arrays of different inner shapes are refused
pub fn nested_mismatch<S: Source>(s: &mut S, variant: usize) {
    let v = s.vals(5, Dom::D4);
    let a = match variant {
        0 => arr![arr![v[0], v[1]], arr![v[2]]],
        1 => arr![arr![arr![v[0]], arr![v[1]]], arr![arr![v[2], v[3]], arr![v[4]]]],
        // [2] next to [2,1]: one shape is a prefix of the other and the element counts agree
        3 => arr![arr![v[0], v[1]], arr![arr![v[2]], arr![v[3]]]],
        // [2,1] next to [2]
        4 => arr![arr![arr![v[0]], arr![v[1]]], arr![v[2], v[3]]],
        _ => arr![arr![v[0], v[1]], arr![arr![v[2], v[3]]]],
    };
    forget(a);
    chk!(false, "[c16:refusal-missing] nested arrays of different shapes were accepted");
}

/// equality: `==` iff dimensions and values are equal, whatever tracking state, graph or
/// gradient the two sides carry
pub fn equality<S: Source>(s: &mut S, da: &[usize], db: &[usize]) {
    let n = crate::refmodel::numel(da);
    let va = s.vals(n, Dom::D2);
    let vb = s.vals(crate::refmodel::numel(db), Dom::D2);
    let a = Array::from((da.to_vec(), va.clone()));
    let b0 = Array::from((db.to_vec(), vb.clone()));
    // give b a different life: tracked, part of a graph, holding a gradient
    let b = b0.tracked();
    let r = &b * &b;
    r.backward(None);
    let expect = dims_eq(da, db) && vals_eq(&va, &vb);
    chk!((a == b) == expect, "[c16:eq] == disagrees with equality of dimensions and values");
    chk!((b == a) == expect, "[c16:eq-sym] == is not symmetric");
    chk!(a == a.clone(), "[c16:eq-clone] an array differs from its clone");
    // storage-sharing views: equal iff the dimensions are equal too
    let flat = a.reshape(vec![n]);
    chk!((flat == a) == (da.len() == 1), "[c16:eq-view] a reshaped view with different dimensions compares equal to its source");
    let same_shape = a.reshape(da.to_vec());
    chk!(same_shape == a, "[c16:eq-view-same] a view with the same dimensions differs from its source");
    forget((flat, same_shape));
    witness();
    forget((a, b, r));
}
