//! C15 — layers, activations, costs and the (explicit) model composition compute their
//! documented formulas.  Parameters are drawn through a harness `Initializer` closure and
//! read back through `Layer::parameters()`; the oracle evaluates the formula of the
//! property text with the reference model.
use crate::alg::Alg;
use crate::chk;
use crate::refmodel::{self, T};
use crate::source::{Dom, Source};
use crate::util::*;
use crate::cases::grad::{check_forward, same};
use corgi::activation::{self, Activation};
use corgi::array::Array;
use corgi::cost;
use corgi::initializer::Initializer;
use corgi::layer::conv::Conv;
use corgi::layer::dense::Dense;
use corgi::layer::Layer;
use corgi::numbers::Float;
use std::cell::RefCell;
use std::rc::Rc;

#[derive(Clone, Copy, PartialEq, Eq, Debug)]
pub enum Act {
    None,
    Relu,
    Sigmoid,
    Softmax,
}

pub fn act_ref(x: &T, a: Act) -> T {
    match a {
        Act::None => x.clone(),
        Act::Relu => x.relu(),
        Act::Sigmoid => x.sigmoid(),
        Act::Softmax => x.softmax(),
    }
}

pub fn activation(a: Act) -> Option<Activation> {
    match a {
        Act::None => None,
        Act::Relu => Some(activation::relu()),
        Act::Sigmoid => Some(activation::sigmoid()),
        Act::Softmax => Some(activation::softmax()),
    }
}

/// an initializer that hands out pre-drawn symbolic values in call order
pub fn initializer(values: Vec<Float>) -> Initializer {
    let q = Rc::new(RefCell::new((values, 0usize)));
    Box::new(move |_| {
        let mut g = q.borrow_mut();
        let i = g.1;
        g.1 += 1;
        g.0[i]
    })
}

/// the parameter arrays of a layer, as reference constants
pub fn params_ref(layer: &mut dyn Layer) -> Vec<T> {
    let mut out = Vec::new();
    for p in layer.parameters() {
        out.push(konst(p, 0));
    }
    out
}

/// Dense: activation(x W^T + b) for a batch of row vectors or a single vector
pub fn dense<S: Source>(s: &mut S, input: &[usize], inp: usize, out: usize, a: Act, dom: Dom) {
    let init = initializer(s.vals(inp * out + out, dom));
    let act = activation(a);
    let mut layer = Dense::new(inp, out, &init, act.as_ref());
    let pr = params_ref(&mut layer);
    chk!(dims_eq(&pr[0].d, &[out, inp]) && dims_eq(&pr[1].d, &[out]), "[c15:dense-params] dense parameter dimensions");
    let x = mk(s, input, if a == Act::Relu { Dom::Sgn } else { dom });
    let xr = konst(&x, 0);
    let y = layer.forward(x.clone());
    let lin = refmodel::matmul(&xr, false, &pr[0], true, Some(&pr[1])).expect("[ref] dense shapes");
    let e = act_ref(&lin, a);
    check_forward(&y, &e, a == Act::Sigmoid || a == Act::Softmax);
    witness();
    forget((layer, x, y));
    forget((act, init));
}

/// Conv layer: activation(conv(x, filters, stride) + b) with one bias per filter
pub fn conv<S: Source>(s: &mut S, input: &[usize], filt: (usize, usize, usize, usize), stride: (usize, usize), a: Act, dom: Dom) {
    let (fc, fd, fr, fcol) = filt;
    let init = initializer(s.vals(fc * fd * fr * fcol + fc, dom));
    let mut layer = Conv::new(filt, stride, &init, activation(a));
    let pr = params_ref(&mut layer);
    chk!(dims_eq(&pr[0].d, &[fc, fd, fr, fcol]) && dims_eq(&pr[1].d, &[fc, 1, 1]), "[c15:conv-params] conv parameter dimensions");
    let x = mk(s, input, dom);
    let xr = konst(&x, 0);
    let y = layer.forward(x.clone());
    let c = refmodel::conv(&xr, &pr[0], stride).expect("[ref] conv shapes");
    let e = act_ref(&c.add(&pr[1]), a);
    check_forward(&y, &e, a == Act::Sigmoid || a == Act::Softmax);
    witness();
    forget((layer, x, y, init));
}

/// a stack of two dense layers is the composition in order
pub fn compose<S: Source>(s: &mut S, input: &[usize], inp: usize, hid: usize, out: usize, a1: Act) {
    let i1 = initializer(s.vals(inp * hid + hid, Dom::D2));
    let i2 = initializer(s.vals(hid * out + out, Dom::D2));
    let act1 = activation(a1);
    let mut l1 = Dense::new(inp, hid, &i1, act1.as_ref());
    let mut l2 = Dense::new(hid, out, &i2, None);
    let p1 = params_ref(&mut l1);
    let p2 = params_ref(&mut l2);
    let x = mk(s, input, Dom::D2);
    let xr = konst(&x, 0);
    let layers: Vec<&dyn Layer> = vec![&l1, &l2];
    let mut y = x.clone();
    for l in layers.iter() {
        y = l.forward(y);
    }
    let h = act_ref(&refmodel::matmul(&xr, false, &p1[0], true, Some(&p1[1])).expect("[ref]"), a1);
    let e = refmodel::matmul(&h, false, &p2[0], true, Some(&p2[1])).expect("[ref]");
    check_forward(&y, &e, false);
    witness();
    forget((l1, l2, x, y));
    forget((act1, i1, i2));
}

/// `Model::forward` is the composition of its layers in order (two dense layers), through
/// the `Model` struct itself (forward only)
pub fn model_forward<S: Source>(s: &mut S, input: &[usize], inp: usize, hid: usize, out: usize) {
    use corgi::model::Model;
    use corgi::optimizer::gd::GradientDescent;
    let i1 = initializer(s.vals(inp * hid + hid, Dom::D2));
    let i2 = initializer(s.vals(hid * out + out, Dom::D2));
    let mut l1 = Dense::new(inp, hid, &i1, None);
    let mut l2 = Dense::new(hid, out, &i2, None);
    let p1 = params_ref(&mut l1);
    let p2 = params_ref(&mut l2);
    let x = mk(s, input, Dom::D2);
    let xr = konst(&x, 0);
    let gd = GradientDescent::new(0.5);
    let costf = cost::mse();
    let y = {
        let mut model = Model::new(vec![&mut l1, &mut l2], &gd, &costf);
        let y = model.forward(x.clone());
        forget(model);
        y
    };
    let h = refmodel::matmul(&xr, false, &p1[0], true, Some(&p1[1])).expect("[ref]");
    let e = refmodel::matmul(&h, false, &p2[0], true, Some(&p2[1])).expect("[ref]");
    check_forward(&y, &e, false);
    witness();
    forget((l1, l2, x, y));
    forget((i1, i2, costf));
}

/// `Model::backward` returns the sum of the cost array of the last forward's output and
/// leaves the loss gradient on the parameters (forward + backward through `Model`, no update)
pub fn model_backward<S: Source>(s: &mut S, input: &[usize], inp: usize, out: usize) {
    use corgi::model::Model;
    use corgi::optimizer::gd::GradientDescent;
    let init = initializer(s.vals(inp * out + out, Dom::D2));
    let mut layer = Dense::new(inp, out, &init, None);
    let ndir = inp * out + out;
    let mut pv: Vec<T> = Vec::new();
    let mut first = 0;
    for p in layer.parameters() {
        pv.push(T::var(p.dimensions(), p.values().to_vec(), first, ndir));
        first += p.values().len();
    }
    let x = mk(s, input, Dom::D2);
    let xr = T::konst(x.dimensions(), x.values().to_vec(), ndir);
    let gd = GradientDescent::new(0.5);
    let costf: corgi::cost::CostFunction = Box::new(|o: &Array, t: &Array| o * t);
    let yr = refmodel::matmul(&xr, false, &pv[0], true, Some(&pv[1])).expect("[ref]");
    let t = mk(s, &yr.d, Dom::D2);
    let tr = T::konst(t.dimensions(), t.values().to_vec(), ndir);
    let loss = {
        let mut model = Model::new(vec![&mut layer], &gd, &costf);
        let y = model.forward(x.clone());
        let loss = model.backward(t.clone());
        forget((model, y));
        loss
    };
    let er = yr.mul(&tr);
    let mut lref: Float = 0.0;
    for v in er.v.iter() {
        lref += *v;
    }
    chk!(same(loss, lref, false), "[c15:model-loss] Model::backward did not return the sum of the cost array");
    let ones = vec![1.0 as Float; er.len()];
    let g = refmodel::vjp_all(&er, &ones);
    let mut first = 0;
    for p in layer.parameters() {
        let gr = p.gradient();
        chk!(gr.is_some(), "[grad:missing] a tracked leaf received no gradient");
        if let Some(gr) = gr.as_ref() {
            for k in 0..gr.values().len() {
                chk!(gr.values()[k] == g[first + k], "[grad:value] gradient element differs from the seed-weighted sum of partial derivatives");
            }
            first += gr.values().len();
        }
    }
    witness();
    forget((layer, x, t));
    forget((init, costf));
}

/// mse = (target - output)^2 / element count;  loss = sum of the cost array
pub fn mse<S: Source>(s: &mut S, d: &[usize]) {
    let o = mk(s, d, Dom::D4);
    let t = mk(s, d, Dom::D4);
    let c = (cost::mse())(&o, &t);
    chk!(dims_eq(c.dimensions(), d), "[c15:mse-dims] cost array dimensions");
    let n = refmodel::numel(d);
    let mut total: Float = 0.0;
    for i in 0..n {
        let diff = t.values()[i] - o.values()[i];
        let e = diff * diff / (n as Float);
        chk!(same(c.values()[i], e, false), "[c15:mse] mse element is not (target - output)^2 / element count");
        total += e;
    }
    chk!(same(c.sum_all(), total, false), "[c15:loss-sum] the loss is not the sum of the cost array");
    witness();
    forget((o, t, c));
}

/// cross-entropy of an unbatched sample: the layer's output is `[1,n]`, the target `[n]`; the
/// divisor is the output's leading dimension (1)
pub fn cross_entropy_unbatched<S: Source>(s: &mut S, n: usize) {
    let o = mk(s, &[1, n], Dom::Pos);
    let t = mk(s, &[n], Dom::D2);
    let c = (cost::cross_entropy())(&o, &t);
    chk!(dims_eq(c.dimensions(), &[1, n]), "[c15:ce-dims] cost array dimensions");
    for i in 0..n {
        let e = -t.values()[i] * o.values()[i].ln();
        chk!(same(c.values()[i], e, true), "[c15:cross-entropy] element is not -target * ln(output) / leading dimension");
    }
    witness();
    forget((o, t, c));
}

/// cross-entropy = -target * ln(output) / leading dimension
pub fn cross_entropy<S: Source>(s: &mut S, d: &[usize]) {
    let o = mk(s, d, Dom::Pos);
    let t = mk(s, d, Dom::D2);
    let c = (cost::cross_entropy())(&o, &t);
    chk!(dims_eq(c.dimensions(), d), "[c15:ce-dims] cost array dimensions");
    let n = refmodel::numel(d);
    let lead = d[0] as Float;
    let mut total: Float = 0.0;
    for i in 0..n {
        let e = -t.values()[i] * o.values()[i].ln() / lead;
        chk!(same(c.values()[i], e, true), "[c15:cross-entropy] element is not -target * ln(output) / leading dimension");
        total += c.values()[i];
    }
    chk!(same(c.sum_all(), total, true), "[c15:loss-sum] the loss is not the sum of the cost array");
    witness();
    forget((o, t, c));
}
