"""C18 - dropping results releases everything they held (real drop glue)."""


def generate(G):
    L = G.leaf

    def rel(id, prog, ls, passes, keep, tier, unwind=6, heavy=False, stubs=()):
        G.ob("c18_" + id, "C18", "release", "c18::release(s, &programs::%s, %s, %d, %s)" % (prog, G.leaves(ls), passes, "true" if keep else "false"),
             unwind=unwind, tier=tier, heavy=heavy, stubs=stubs,
             skeleton={"program": prog, "leaves": ls, "passes": passes, "gradients_taken_before_unwrap": keep})

    G.ob("c18_model_release", "C18", "model_release", "c18::model_release(s)", unwind=8, tier="quick", heavy=False,
         skeleton={"what": "Model[Dense(1->1)]: forward, backward, caller drops the output, forward again: the first batch and target are sole owners"})
    for n, tier in ((1, "quick"), (2, "thorough")):
        G.ob("c18_update_release_%d" % n, "C18", "update_release", "c18::update_release(s, %d)" % n, unwind=6, tier=tier,
             skeleton={"what": "forward, backward, result dropped, GradientDescent::update, %d time(s): a kept handle on the first parameter is the sole owner" % n})
    two = [L([2]), L([2])]
    rel("mul_nopass", "Mul", two, 0, False, "quick")
    rel("mul_pass", "Mul", two, 1, False, "quick")
    rel("muladdshare_pass_keep", "MulAddShare", two, 1, True, "quick")
    rel("diamond_pass", "Diamond", two, 1, False, "quick")
    rel("diamond_twice_keep", "Diamond", two, 2, True, "thorough")
    rel("muladdshare_twice_keep", "MulAddShare", two, 2, True, "quick")
    rel("square_pass", "Square", [L([2])], 1, True, "quick")
    rel("bcast_pass", "Mul", [L([2]), L([2, 2], "D2")], 1, False, "quick", unwind=8)
    rel("exp_pass", "Exp", [L([2])], 1, False, "quick", stubs=("exp",))
    rel("relumix_pass", "ReluMix", [L([2], "Sgn"), L([2], "Sgn")], 1, False, "thorough")
    rel("relushare_pass", "ReluShare", [L([1], "Sgn")], 1, False, "quick")
    rel("relushare_dead_pass", "ReluShare", [L([2], "Neg1")], 1, False, "quick")
    rel("div_pass", "Div", [L([2]), L([2], "Pos")], 1, False, "thorough", stubs=("powf",))
    rel("untracked_leaf", "MulAddShare", [L([2]), L([2], tracked=False)], 1, False, "quick")
    rel("all_untracked", "MulAddShare", [L([2], tracked=False), L([2], tracked=False)], 0, False, "thorough")
    rel("chain5_pass", "Chain5", two, 1, False, "thorough", heavy=True)
    rel("matmul_pass", "Matmul { at: false, bt: true, c: true }", [L([1, 2], "D2"), L([2, 2], "D2"), L([2], "D2")], 1, True, "thorough", unwind=8)
    rel("sum_pass", "Sum(1)", [L([2, 2])], 1, False, "thorough", unwind=8)
    rel("reshape_pass", "Reshape(&[2, 1])", [L([2])], 1, False, "thorough")
    rel("conv_pass", "Conv((1, 1))", [L([1, 2, 2], "D2"), L([1, 1, 1, 2], "D2")], 1, False, "thorough", unwind=10, heavy=True)
    rel("squarechain3", "SquareChain3", [L([1], "D2")], 1, True, "thorough")
