"""C15 - layers, activations, costs and the model composition compute their documented formulas."""


def generate(G):
    def dense(inp_shape, inp, out, act, tier, dom="D4", stubs=(), heavy=False):
        id = "c15_dense_%s_%dto%d_%s" % (G.sname(inp_shape), inp, out, act.lower())
        n = max(G.numel(inp_shape), inp * out + out, G.numel(inp_shape) // inp * out)
        G.ob(id, "C15", "dense", "c15::dense(s, %s, %d, %d, c15::Act::%s, Dom::%s)" % (G.rs(inp_shape), inp, out, act, dom),
             unwind=n + 3, tier=tier, stubs=stubs, heavy=heavy,
             skeleton={"input": inp_shape, "in": inp, "out": out, "activation": act, "formula": "activation(x W^T + b)"},
             domains="weights, biases, input: %s (relu input: Dsgn)" % dom)

    dense([2], 2, 2, "None", "quick")
    dense([1, 2], 2, 1, "None", "quick")
    dense([2, 2], 2, 2, "None", "quick", dom="D2")
    dense([2, 2], 2, 1, "Relu", "quick", dom="D2")
    dense([1, 2], 2, 2, "Sigmoid", "quick", dom="D2", stubs=("exp",))
    dense([2, 1], 1, 2, "Softmax", "thorough", dom="D2", stubs=("exp",))
    dense([1], 1, 2, "Softmax", "quick", dom="D2", stubs=("exp",))
    dense([1, 2, 1], 1, 2, "Softmax", "quick", dom="D2", stubs=("exp",))     # rank-3 input: softmax still over the last dimension
    dense([2], 2, 1, "Relu", "thorough")
    dense([3], 3, 2, "None", "thorough", dom="D2")
    dense([2, 3], 3, 1, "None", "thorough", dom="D2")
    dense([2], 2, 2, "Softmax", "thorough", dom="D2", stubs=("exp",))
    dense([2, 2], 2, 2, "Sigmoid", "thorough", dom="D2", stubs=("exp",), heavy=True)
    dense([1, 1], 1, 1, "Relu", "thorough")

    def conv(inp, filt, stride, act, tier, dom="D2", stubs=()):
        id = "c15_conv_%s_%s_s%d%d_%s" % (G.sname(inp), G.sname(filt), stride[0], stride[1], act.lower())
        orows = (inp[-2] - filt[2]) // stride[0] + 1
        ocols = (inp[-1] - filt[3]) // stride[1] + 1
        batch = G.numel(inp[:-3]) if len(inp) > 3 else 1
        unrolled = batch * orows * ocols * filt[1] * filt[2] * filt[3]
        G.ob(id, "C15", "conv", "c15::conv(s, %s, (%d, %d, %d, %d), (%d, %d), c15::Act::%s, Dom::%s)" % (
            G.rs(inp), filt[0], filt[1], filt[2], filt[3], stride[0], stride[1], act, dom),
            unwind=max(unrolled, G.numel(inp), G.numel(filt) + filt[0]) + 3, tier=tier, stubs=stubs, heavy=True,
            skeleton={"input": inp, "filters": filt, "stride": list(stride), "activation": act,
                      "formula": "activation(conv(x, filters, stride) + b), one bias per filter"})

    conv([1, 2, 3], [1, 1, 2, 2], (1, 1), "None", "quick")
    conv([1, 2, 2], [2, 1, 1, 2], (1, 1), "Relu", "quick")
    conv([2, 1, 2, 2], [2, 1, 2, 1], (1, 1), "None", "quick")       # batch 2 x 2 filters: bias broadcast [F,1,1] into [B,F,r,c]
    conv([1, 1, 2, 3], [1, 1, 1, 2], (1, 1), "None", "thorough")
    conv([1, 3, 3], [1, 1, 2, 2], (1, 2), "None", "quick")                  # one output column, filter narrower than the image
    conv([1, 2, 4], [1, 1, 2, 2], (1, 2), "None", "thorough")
    conv([2, 2, 2], [1, 2, 2, 2], (1, 1), "Sigmoid", "thorough", stubs=("exp",))

    for inp_shape, i, h, o, act, tier in [([2], 2, 2, 1, "Relu", "quick"), ([2, 2], 2, 1, 2, "None", "thorough"), ([1, 1], 1, 2, 1, "None", "thorough")]:
        G.ob("c15_compose_%s_%d_%d_%d_%s" % (G.sname(inp_shape), i, h, o, act.lower()), "C15", "compose",
             "c15::compose(s, %s, %d, %d, %d, c15::Act::%s)" % (G.rs(inp_shape), i, h, o, act), unwind=10, tier=tier, heavy=True,
             skeleton={"input": inp_shape, "sizes": [i, h, o], "activation1": act, "formula": "layer2(layer1(x)) in order (explicit composition, not through Model)"},
             domains="parameters, input D2")
    # through the Model struct itself: Model::forward and Model::backward encode fine (125 s for both);
    # it is Model::update that does not (DESIGN.md closing note)
    G.ob("c15_model_forward_2_2_2_1", "C15", "model_forward", "c15::model_forward(s, &[2], 2, 2, 1)", unwind=10, tier="experimental",
         heavy=True, skeleton={"stack": "Model[Dense(2->2), Dense(2->1)]", "input": [2], "what": "Model::forward == composition"})
    G.ob("c15_model_backward_1x2_2to1", "C15", "model_backward", "c15::model_backward(s, &[1, 2], 2, 1)", unwind=10, tier="experimental",
         heavy=True, skeleton={"stack": "Model[Dense(2->1)]", "input": [1, 2], "what": "Model::backward returns sum(cost array); parameter gradients"})
    G.ob("c15_model_forward_1x1_1_1_1", "C15", "model_forward", "c15::model_forward(s, &[1, 1], 1, 1, 1)", unwind=8, tier="quick",
         heavy=False, skeleton={"stack": "Model[Dense(1->1), Dense(1->1)]", "input": [1, 1], "what": "Model::forward == composition"})
    G.ob("c15_model_backward_1x1_1to1", "C15", "model_backward", "c15::model_backward(s, &[1, 1], 1, 1)", unwind=8, tier="quick",
         heavy=False, skeleton={"stack": "Model[Dense(1->1)]", "input": [1, 1], "what": "Model::backward returns sum(cost array); parameter gradients"})
    for d, tier in (([2], "quick"), ([2, 2], "quick"), ([1, 4], "thorough"), ([4], "thorough")):
        G.ob("c15_mse_%s" % G.sname(d), "C15", "mse", "c15::mse(s, %s)" % G.rs(d), unwind=G.numel(d) + 3, tier=tier, stubs=("powf",),
             skeleton={"dims": d, "formula": "(target - output)^2 / element count; loss = sum"}, domains="output, target D4 (element counts are powers of two: exact)")
    G.ob("c15_ce_unbatched_2", "C15", "cross_entropy", "c15::cross_entropy_unbatched(s, 2)", unwind=6, tier="quick", stubs=("ln",),
         skeleton={"output": [1, 2], "target": [2], "formula": "-target * ln(output) / leading dimension of the output (1)"},
         domains="output Dpos (ln table), target D2; tolerance 1e-9")
    for d, tier in (([2], "quick"), ([2, 2], "quick"), ([1, 2], "thorough"), ([2, 1, 2], "quick"), ([1, 2, 2], "thorough")):
        G.ob("c15_ce_%s" % G.sname(d), "C15", "cross_entropy", "c15::cross_entropy(s, %s)" % G.rs(d), unwind=G.numel(d) + 3, tier=tier,
             stubs=("ln",), skeleton={"dims": d, "formula": "-target * ln(output) / leading dimension; loss = sum"},
             domains="output Dpos (ln table), target D2; tolerance 1e-9")
