//! Where a harness body gets its nondeterministic inputs from.
//!
//! Under Kani every call is one `kani::any()` (a solver variable); natively the
//! `ReplaySource` feeds back the byte vectors that `--concrete-playback=print`
//! reported for a counterexample, in the same call order, so the *same* body runs on
//! the real build of corgi with the solver's assignment.

use corgi::numbers::Float;

pub trait Source {
    /// One byte of nondeterminism, constrained to `0..n` (`n` ≤ 255).
    fn pick(&mut self, n: u8) -> u8;
    /// Sixty-four unconstrained bits (full-width float obligations).
    fn bits64(&mut self) -> u64;
    /// An unconstrained usize below `bound` (symbolic dimensions / indices).
    fn size(&mut self, bound: usize) -> usize;

    // ----- value domains (DESIGN.md §3.2) ---------------------------------------
    /// D4 = {0,1,2,3}
    fn d4(&mut self) -> Float {
        self.pick(4) as Float
    }
    /// Dpos = {1,2,4}: divisors, arguments of reciprocal / ln
    fn dpos(&mut self) -> Float {
        match self.pick(3) {
            0 => 1.0,
            1 => 2.0,
            _ => 4.0,
        }
    }
    /// Dsgn = {-2,-1,0,1}: arguments of relu
    fn dsgn(&mut self) -> Float {
        self.pick(4) as Float - 2.0
    }
    /// learning rates {0, 0.5, 1, 2}
    fn lr(&mut self) -> Float {
        match self.pick(4) {
            0 => 0.0,
            1 => 0.5,
            2 => 1.0,
            _ => 2.0,
        }
    }
    /// scale factors {-2,-1,0,0.5,2,3}
    fn scale(&mut self) -> Float {
        match self.pick(6) {
            0 => -2.0,
            1 => -1.0,
            2 => 0.0,
            3 => 0.5,
            4 => 2.0,
            _ => 3.0,
        }
    }
    /// D2 = {0,1}
    fn d2(&mut self) -> Float {
        self.pick(2) as Float
    }
    /// Dexp = {1,4}: bases for fractional / negative exponents
    fn dbase(&mut self) -> Float {
        if self.pick(2) == 0 {
            1.0
        } else {
            4.0
        }
    }
    fn flag(&mut self) -> bool {
        self.pick(2) == 1
    }
    fn val(&mut self, d: Dom) -> Float {
        match d {
            Dom::D4 => self.d4(),
            Dom::Pos => self.dpos(),
            Dom::Sgn => self.dsgn(),
            Dom::D2 => self.d2(),
            Dom::Base => self.dbase(),
            Dom::Full => Float::from_bits(self.bits64() as _),
            // concrete: lets a data-dependent branch in the code under test be taken concretely
            Dom::Neg1 => -1.0,
            Dom::Zero => 0.0,
            Dom::Sq => match self.pick(3) {
                0 => 0.0,
                1 => 1.0,
                _ => 4.0,
            },
            Dom::Two => 2.0,
        }
    }
    fn vals(&mut self, n: usize, d: Dom) -> Vec<Float> {
        let mut v = Vec::with_capacity(n);
        for _ in 0..n {
            v.push(self.val(d));
        }
        v
    }
}

#[derive(Clone, Copy, PartialEq, Eq, Debug)]
pub enum Dom {
    D4,
    Pos,
    Sgn,
    D2,
    Base,
    Full,
    /// the constant -1 (no solver variable): an all-inactive relu input
    Neg1,
    /// the constants 0 and 2 (no solver variables): fully concrete histories
    Zero,
    Two,
    /// {0, 1, 4}: bases of a square root, zero included
    Sq,
}

// ---------------------------------------------------------------------------------
#[cfg(kani)]
pub struct KaniSource;

#[cfg(kani)]
impl Source for KaniSource {
    #[inline(always)]
    fn pick(&mut self, n: u8) -> u8 {
        let v: u8 = kani::any();
        if n.is_power_of_two() {
            v & (n - 1)
        } else {
            kani::assume(v < n);
            v
        }
    }
    #[inline(always)]
    fn bits64(&mut self) -> u64 {
        kani::any()
    }
    #[inline(always)]
    fn size(&mut self, bound: usize) -> usize {
        let v: usize = kani::any();
        kani::assume(v < bound);
        v
    }
}

// ---------------------------------------------------------------------------------
/// Replays a recorded counterexample: one byte vector per `kani::any()` call.
pub struct ReplaySource {
    pub items: std::collections::VecDeque<Vec<u8>>,
    pub consumed: usize,
    /// reduce out-of-range values modulo the bound instead of rejecting them (smoke mode)
    pub lenient: bool,
}

impl ReplaySource {
    pub fn new(items: Vec<Vec<u8>>) -> Self {
        ReplaySource {
            items: items.into(),
            consumed: 0,
            lenient: false,
        }
    }
    fn next(&mut self) -> Vec<u8> {
        self.consumed += 1;
        // a counterexample that ends before the body stops asking was cut by the failing
        // check; any value is then as good as another
        self.items.pop_front().unwrap_or_else(|| vec![0; 8])
    }
}

impl ReplaySource {
    /// smoke mode: an endless pseudo-random stream instead of recorded values (native
    /// validation of the harness bodies and the reference model; not a verdict)
    pub fn random(seed: u64) -> Self {
        let mut x = seed.wrapping_mul(0x9E3779B97F4A7C15) | 1;
        let mut items = Vec::with_capacity(4096);
        for _ in 0..4096 {
            x ^= x << 13;
            x ^= x >> 7;
            x ^= x << 17;
            items.push(x.to_le_bytes().to_vec());
        }
        let mut r = ReplaySource::new(items);
        r.lenient = true;
        r
    }
}

impl Source for ReplaySource {
    fn pick(&mut self, n: u8) -> u8 {
        let v = self.next()[0];
        if n.is_power_of_two() {
            v & (n - 1)
        } else {
            if self.lenient {
                return v % n;
            }
            assert!(v < n, "[replay] recorded value {} violates assume(v < {})", v, n);
            v
        }
    }
    fn bits64(&mut self) -> u64 {
        let b = self.next();
        let mut a = [0u8; 8];
        a[..b.len().min(8)].copy_from_slice(&b[..b.len().min(8)]);
        u64::from_le_bytes(a)
    }
    fn size(&mut self, bound: usize) -> usize {
        let b = self.next();
        let mut a = [0u8; 8];
        a[..b.len().min(8)].copy_from_slice(&b[..b.len().min(8)]);
        let v = u64::from_le_bytes(a) as usize;
        if self.lenient {
            return v % bound;
        }
        assert!(v < bound, "[replay] recorded value {} violates assume(v < {})", v, bound);
        v
    }
}
