"""C04 - element-wise operations follow right-aligned broadcasting, or refuse."""

OPS = ["Add", "Sub", "Mul", "Div", "Axpy"]


def generate(G):
    seen = set()

    def values(op, a, b, tier):
        id = "c04_val_%s_%s_%s" % (op.lower(), G.sname(a), G.sname(b))
        if id in seen:
            return
        seen.add(id)
        out = G.bcast(a, b)
        n = G.numel(out)
        G.ob(id, "C04", "values", "c04::values(s, c04::Ew::%s, %s, %s)" % (op, G.rs(a), G.rs(b)),
             unwind=n + 2, tier=tier,
             skeleton={"op": op, "a": a, "b": b, "result": out, "class": G.classify_pair(a, b)},
             domains="a: D4, b: %s%s" % ("Dpos" if op == "Div" else "D4",
                                          ", alpha: {-2,-1,0,0.5,2,3}" if op == "Axpy" else ""))

    def refusal(op, a, b, tier):
        id = "c04_ref_%s_%s_%s" % (op.lower(), G.sname(a), G.sname(b))
        if id in seen:
            return
        seen.add(id)
        G.ob(id, "C04", "refusal", "c04::refusal(s, c04::Ew::%s, %s, %s)" % (op, G.rs(a), G.rs(b)),
             unwind=max(G.numel(a), G.numel(b)) + 2, tier=tier, kind="refusal",
             skeleton={"op": op, "a": a, "b": b})

    # ---- quick core: one pair per structural class for add, a handful for the others
    core_add = [
        ([3], [3]), ([2, 3], [2, 3]),                      # equal
        ([2, 3], [3]), ([3], [2, 3]),                      # lower rank, either side
        ([2, 3], [1]), ([1], [2, 2]),                      # all-unit
        ([2, 3], [1, 3]), ([1, 3], [2, 3]),                # leading unit, same rank
        ([2, 3], [2, 1]), ([2, 1], [2, 3]),                # trailing unit
        ([2, 1], [1, 3]),                                  # both sides broadcast
        ([2, 2, 2], [2, 2]), ([2, 2], [2, 2, 2]),          # rank-2 against rank-3
        ([2, 2, 2], [2]), ([2, 2, 2], [1, 2]),
        ([2, 1, 2], [2, 2, 2]), ([2, 2, 2], [2, 1, 2]),    # interior unit
        ([1, 2, 2], [2, 2, 2]), ([2, 2, 2], [1, 2, 2]),    # leading unit rank 3
        ([2, 1, 2], [1, 2, 1]),                            # alternating
        ([3, 2], [3, 1]), ([3, 1], [1, 2]),
        ([2, 1, 2, 1], [2, 1, 2]), ([2, 2, 1, 2], [2, 1]),  # rank 4
    ]
    for a, b in core_add:
        values("Add", a, b, "quick")
    core_other = [([2, 3], [3]), ([2, 2, 2], [2, 2]), ([2, 1], [1, 3]), ([1, 2, 2], [2, 1, 2]), ([3], [2, 3])]
    for op in ["Sub", "Mul", "Div", "Axpy"]:
        for a, b in core_other:
            values(op, a, b, "quick")

    core_ref = [([2], [3]), ([2, 3], [2]), ([2, 3], [3, 2]), ([3, 2], [2, 2]), ([2, 2, 3], [3, 3]),
                ([2, 2, 2], [3, 1, 2]), ([3], [2, 3, 2]), ([2, 3], [2, 2, 2]), ([1, 2], [3]), ([2, 1, 3], [2, 2, 2])]
    for a, b in core_ref:
        refusal("Add", a, b, "quick")
    refusal("Mul", [2], [3], "quick")
    refusal("Div", [2, 3], [2], "quick")
    refusal("Sub", [3, 2], [2, 2], "quick")
    refusal("Axpy", [2, 3], [3, 2], "quick")

    # ---- thorough pool: every pair of rank <= 3, extents <= 2 for add and mul; rank <= 2,
    # extents <= 3 for add; compatible -> values, incompatible -> refusal
    sh = list(G.shapes(3, 2))
    for a in sh:
        for b in sh:
            if G.bcast(a, b) is not None:
                values("Add", a, b, "thorough")
                values("Mul", a, b, "thorough")
            else:
                refusal("Add", a, b, "thorough")
    sh = list(G.shapes(2, 3))
    for a in sh:
        for b in sh:
            if G.bcast(a, b) is not None:
                values("Add", a, b, "thorough")
            else:
                refusal("Mul", a, b, "thorough")
    # curated rank-4 pairs
    r4 = [([2, 1, 2, 2], [2, 2, 1, 2]), ([1, 2, 1, 2], [2, 1, 2, 1]), ([2, 2, 2, 2], [2, 2]),
          ([2, 2, 2, 2], [2, 1, 2]), ([2, 2], [1, 2, 2, 2]), ([2, 1, 1, 2], [2, 2]), ([1, 1, 2, 2], [2, 1, 2, 2]),
          ([2, 2, 1, 1], [2, 2]), ([2, 3, 1, 2], [3, 2, 1]), ([1, 2, 3, 1], [2, 1, 1, 2])]
    for a, b in r4:
        for op in ["Add", "Mul", "Sub", "Div", "Axpy"]:
            values(op, a, b, "thorough")
    for op in ["Sub", "Div", "Axpy"]:
        for a in G.shapes(3, 2):
            for b in G.shapes(2, 2):
                if G.bcast(a, b) is not None and G.numel(a) >= 2:
                    values(op, a, b, "thorough")
