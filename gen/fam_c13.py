"""C13 - a gradient-descent update is exactly one step per parameter and clears gradients."""
import itertools


def generate(G):
    def ob(shapes, has, repeats, tier):
        id = "c13_%s_g%s_r%d" % ("_".join(G.sname(d) for d in shapes), "".join("1" if h else "0" for h in has), repeats)
        if id in G._ids:
            return
        G.ob(id, "C13", "update",
             "c13::update(s, &[%s], &[%s], %d)" % (", ".join(G.rs(d) for d in shapes), ", ".join("true" if h else "false" for h in has), repeats),
             unwind=max(max(G.numel(d) for d in shapes), sum(G.numel(d) for d, h in zip(shapes, has) if h), len(shapes)) + 3,
             tier=tier, skeleton={"parameters": shapes, "holding_gradient": list(has), "repeats": repeats},
             domains="values, gradients D4; lr in {0,0.5,1,2}")

    def obf(shapes, has, tier):
        id = "c13_frozen_untracked_%s_g%s" % ("_".join(G.sname(d) for d in shapes), "".join("1" if h else "0" for h in has))
        G.ob(id, "C13", "update_frozen_untracked",
             "c13::update_with(s, &[%s], &[%s], 1, true)" % (", ".join(G.rs(d) for d in shapes), ", ".join("true" if h else "false" for h in has)),
             unwind=6, tier=tier, skeleton={"parameters": shapes, "holding_gradient": list(has), "frozen_by": "stop_tracking()"},
             domains="values, gradients D4; lr in {0,0.5,1,2}")

    obf([[2], [1, 2]], [True, False], "quick")
    obf([[2], [2], [1]], [False, True, False], "thorough")
    G.ob("c13_after_add", "C13", "update_after_add", "c13::update_after_add(s)", unwind=6, tier="quick",
         skeleton={"what": "gradients deposited by a real pass through an addition (both parameters' gradients and the sum's share one buffer), then update"},
         domains="values D4; lr in {0,0.5,1,2}")
    G.ob("c13_odd_gradient_shape", "C13", "update_odd_gradient_shape", "c13::update_odd_gradient_shape(s)", unwind=6, tier="quick",
         skeleton={"what": "gradients of dimensions [1,2] / [2] stored on parameters of dimensions [2] / [1,2]: dimensions kept, element-wise step"},
         domains="values, gradients D4; lr in {0,0.5,1,2}")
    G.ob("c13_grad_while_untracked", "C13", "update_grad_while_untracked", "c13::update_grad_while_untracked(s)", unwind=6, tier="quick",
         skeleton={"what": "a parameter that holds a gradient but had stop_tracking() called before the update is stepped and comes back tracked"},
         domains="values, gradients D4; lr in {0,0.5,1,2}")
    ob([[2]], [True], 1, "quick")
    ob([[2]], [False], 1, "quick")
    ob([[2], [1, 2]], [True, True], 1, "quick")
    ob([[2], [1, 2], [2, 1]], [True, False, True], 1, "quick")
    ob([[1], [2, 2], [2]], [False, True, True], 1, "quick")
    ob([[2, 2], [1], [2]], [True, True, False], 1, "quick")
    ob([[2], [2]], [True, True], 2, "quick")
    ob([[1], [2], [1, 2], [2, 1]], [True, False, False, True], 1, "quick")
    ob([[2], [1, 2]], [False, False], 1, "quick")
    shapes = [[1], [2], [1, 2], [2, 1], [2, 2]]
    # all frozen subsets for <= 3 parameters over a spread of shape lists
    for lst in [[[2]], [[2], [1, 2]], [[1], [2, 2]], [[2], [1, 2], [2, 1]], [[2, 2], [1], [2]], [[1], [1], [1]], [[2, 1], [2], [1, 2]]]:
        for has in itertools.product([True, False], repeat=len(lst)):
            ob(lst, list(has), 1, "thorough")
    ob([[2], [1, 2], [2, 1]], [True, False, True], 2, "thorough")
    ob([[2]], [True], 3, "thorough")
    ob([[1], [2], [1, 2], [2, 1]], [True, True, True, True], 1, "thorough")
    ob([[1], [2], [1, 2], [2, 1]], [False, True, True, False], 1, "thorough")
