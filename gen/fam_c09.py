"""C09 - tracking decides exactly where gradients are computed and stored."""
import itertools


def generate(G):
    L = G.leaf
    # (id, program, leaf dims+doms, is_view, stubs, unwind)
    ops = [
        ("add", "Add", [([2, 2], "D4"), ([2], "D4")], False, (), 8),
        ("sub", "Sub", [([2], "D4"), ([2], "D4")], False, (), 6),
        ("mul", "Mul", [([2], "D4"), ([1, 2], "D4")], False, (), 6),
        ("div", "Div", [([2], "D4"), ([2], "Pos")], False, (), 6),
        ("axpy", "Axpy(2.0)", [([2], "D4"), ([2], "D4")], False, (), 6),
        ("neg", "Neg", [([2], "D4")], False, (), 6),
        ("scale", "Scale(3.0)", [([2], "D4")], False, (), 6),
        ("lscale", "LScale(0.5)", [([2], "D4")], False, (), 6),
        ("powf", "Powf(2.0)", [([2], "D4")], False, ("powf",), 6),
        ("ln", "Ln", [([2], "Pos")], False, ("ln",), 6),
        ("exp", "Exp", [([2], "D4")], False, ("exp",), 6),
        ("recip", "Recip", [([2], "Pos")], False, (), 6),
        ("sum1", "Sum(1)", [([2, 2], "D4")], False, (), 8),
        ("sum0", "Sum(0)", [([2], "D4")], True, (), 6),
        ("sum1_unit", "Sum(1)", [([2, 1], "D4")], False, (), 6),
        ("sum2_units", "Sum(2)", [([2, 1, 1], "D4")], False, (), 6),
        ("reshape", "Reshape(&[2, 1])", [([2], "D4")], True, (), 6),
        ("relu", "Relu", [([2], "Sgn")], False, (), 6),
        ("sigmoid", "Sigmoid", [([2], "D2")], False, ("exp",), 6),
        ("softmax", "Softmax", [([1, 2], "D2")], False, ("exp",), 6),
        ("matmul", "Matmul { at: false, bt: true, c: false }", [([1, 2], "D2"), ([2, 2], "D2")], False, (), 8),
        ("matmul_c", "Matmul { at: false, bt: true, c: true }", [([1, 2], "D2"), ([2, 2], "D2"), ([2], "D2")], False, (), 8),
        ("matmul_c1", "Matmul { at: false, bt: true, c: true }", [([1, 2], "D2"), ([1, 2], "D2"), ([1], "D2")], False, (), 8),
        ("conv", "Conv((1, 1))", [([1, 2, 2], "D2"), ([1, 1, 1, 2], "D2")], False, (), 8),
    ]
    quick = {("add", (False, False)), ("add", (True, False)), ("mul", (False, True)), ("div", (False, False)), ("neg", (False,)),
             ("neg", (True,)), ("powf", (False,)), ("sum1", (False,)), ("sum0", (False,)), ("sum1_unit", (True,)), ("reshape", (True,)), ("relu", (False,)),
             ("matmul_c", (False, False, True)), ("matmul_c", (False, False, False)), ("matmul_c1", (False, False, True)), ("matmul", (True, False)),
             ("conv", (False, False)), ("conv", (False, True)), ("softmax", (False,)), ("exp", (True,))}
    for id, prog, ls, is_view, stubs, unwind in ops:
        for flags in itertools.product([False, True], repeat=len(ls)):
            leaves = [L(d, dom, tracked=t) for (d, dom), t in zip(ls, flags)]
            G.ob("c09_flag_%s_%s" % (id, "".join("1" if f else "0" for f in flags)), "C09", "flag",
                 "c09::flag(s, &programs::%s, %s, %s)" % (prog, G.leaves(leaves), "true" if is_view else "false"),
                 unwind=unwind, tier="quick" if (id, flags) in quick else "thorough", stubs=stubs,
                 skeleton={"operation": prog, "operands": [d for d, _ in ls], "tracked": list(flags), "storage_sharing_view": is_view})
    for name, tier, what in [("untracked_root", "quick", "pass started on a result of untracked operands: gradient on that result only"),
                             ("flags_restored", "quick", "a(t) * b(u) + c(t), times a: flags of handles and recorded clones before/after, gradients untracked and graph-free, second pass doubles"),
                             ("flags_restored_untracked_first", "quick", "u(untracked) * a(tracked): flags of the recorded clones after the pass, second pass from a clone of the root doubles"),
                             ("clone_flags", "quick", "stop/start_tracking and tracked() on clones never change the original")]:
        G.ob("c09_" + name, "C09", name, "c09::%s(s)" % name, unwind=6, tier=tier, skeleton={"what": what})
    G.ob("c09_tracked_later", "C09", "tracked_later", "c09::tracked_later(s)", unwind=7, tier="quick",
         skeleton={"what": "b untracked in pass 1, start_tracking(), tracked in pass 2; and w next to w.clone().untracked() in one graph"})
    for id, prog, ls, stubs, tier in [("div", "Div", [L([2]), L([2], "Pos")], ("powf",), "quick"), ("mul", "Mul", [L([2]), L([2])], (), "thorough"),
                                      ("exp", "Exp", [L([2])], ("exp",), "quick"), ("recip", "Recip", [L([2], "Pos")], ("powf",), "thorough"),
                                      ("ln", "Ln", [L([2], "Pos")], ("ln",), "thorough"), ("powf", "Powf(3.0)", [L([2])], ("powf",), "thorough"),
                                      ("softmax", "Softmax", [L([2], "D2")], ("exp", "powf"), "thorough"),
                                      ("matmul", "Matmul { at: false, bt: true, c: true }", [L([1, 2], "D2"), L([2, 2], "D2"), L([2], "D2")], (), "thorough"),
                                      ("sigmoid", "Sigmoid", [L([2], "D2")], ("exp",), "thorough"), ("relu", "Relu", [L([2], "Sgn")], (), "thorough"),
                                      ("divsum", "DivSum", [L([1, 2], "Pos")], ("powf",), "thorough")]:
        G.ob("c09_gradient_plain_" + id, "C09", "gradient_plain", "c09::gradient_plain(s, &programs::%s, %s)" % (prog, G.leaves(ls)),
             unwind=8, tier=tier, stubs=stubs, skeleton={"operation": prog, "what": "stored gradients are untracked and graph-free"})
    # gradient presence with flags on leaves and intermediates: grad obligations
    G.ob("c09_grad_detachmid", "C09", "presence", "grad::grad(s, &programs::DetachMid, %s, Seed::Explicit(Dom::D4), false)" %
         G.leaves([L([2]), L([2])]), unwind=6, tier="quick",
         skeleton={"program": "(a*b).untracked() * a + b", "what": "nothing flows through an untracked intermediate"})
    for t0, t1 in [(True, False), (False, True)]:
        G.ob("c09_grad_dot_t%d%d" % (t0, t1), "C09", "presence",
             "grad::grad(s, &programs::Matmul { at: false, bt: false, c: false }, %s, Seed::Explicit(Dom::D4), false)" % G.leaves([L([2], tracked=t0), L([2], tracked=t1)]),
             unwind=8, tier="quick" if t0 else "thorough",
             skeleton={"program": "dot product of two vectors", "tracked": [t0, t1], "what": "only the tracked vector receives a gradient"})
    for t0, t1 in [(True, False), (False, True)]:
        G.ob("c09_grad_diamond_t%d%d" % (t0, t1), "C09", "presence",
             "grad::grad(s, &programs::Diamond, %s, Seed::Explicit(Dom::D4), false)" % G.leaves([L([2], tracked=t0), L([2], tracked=t1)]),
             unwind=6, tier="quick" if t0 else "thorough",
             skeleton={"program": "a * ((a*b) + a)", "tracked": [t0, t1], "what": "untracked leaf receives none, tracked leaf the full gradient"})
