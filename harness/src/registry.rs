//! Obligation registry for the native replayer.
include!("registry_gen.rs");
