"""C11 - one pass evaluates each node's derivative once, with its complete adjoint."""
import fam_c01


def generate(G):
    L = G.leaf

    def once(id, prog, nl, tier, desc, unwind=6, d=(2,), heavy=False):
        G.ob("c11_" + id, "C11", "once", "c11::once(s, &programs::%s, %s)" % (prog, G.leaves([L(list(d), "D2")] * nl)),
             unwind=unwind, tier=tier, heavy=heavy, skeleton={"program": desc, "leaves": nl, "ops": "Array::op with counting closures"},
             domains="values D2, seed D4")

    quick = {"Dag_ml0l1", "Dag_ml0l0", "Dag_ml0l1_an0l0", "Dag_ml0l0_mn0n0", "Dag_al0l1_mn0n0", "Dag_ml0l1_mn0l1"}
    for n, tier in ((1, "quick"), (2, "quick"), (3, "thorough")):
        for (name, nl, body, desc) in fam_c01.dag_programs(n, False):
            G.program(name, desc, body)
            once(name.lower(), name, nl, tier if name in quick else "thorough", desc)
    once("squarechain3", "SquareChain3", 1, "quick", "self-products depth 3 (8 paths)", d=(1,))
    once("squarechain5", "SquareChain5", 1, "quick", "self-products depth 5 (32 paths)", d=(1,), heavy=True)
    once("squarechain6", "SquareChain6", 1, "thorough", "self-products depth 6 (64 paths)", d=(1,), heavy=True)
    once("fanout3", "FanOut3", 2, "thorough", "x consumed by three nodes that are then combined")
    once("diamond", "Diamond", 2, "quick", "a * ((a*b) + a)")
    G.ob("c11_bcastcustom", "C11", "once", "c11::once(s, &programs::BcastCustom, %s)" % G.leaves([L([2], "D2"), L([2], "D2"), L([2, 2], "D2")]),
         unwind=8, tier="quick", skeleton={"program": "n0 = a*k; n1 = n0*k; n2 = m*n0 (n0 broadcast into [2,2]); n3 = n1 + n2", "ops": "Array::op with counting, broadcasting closures"},
         domains="values D2, seed D4")
    G.ob("c11_retrackedsquare", "C11", "once", "c11::once(s, &programs::RetrackedSquare, %s)" % G.leaves([L([2], "D2"), L([2], "D2")]),
         unwind=6, tier="quick", skeleton={"program": "k = (a*b).untracked() + start_tracking(); y = k*k", "ops": "Array::op with counting closures",
                                           "what": "a tracked node without the keep flag, two consumers"},
         domains="values D2, seed D4")
    G.ob("c11_detacheduse", "C11", "once", "c11::once(s, &programs::DetachedUse, %s)" % G.leaves([L([2], "D2"), L([2], "D2")]),
         unwind=6, tier="quick", skeleton={"program": "y = a*b; z = y * y.clone().untracked()", "ops": "Array::op with counting closures"},
         domains="values D2, seed D4")
