//! Programs: computation graphs written once against `Alg` (see alg.rs).
//! Hand-written curated programs live here; the enumerated DAG programs are generated
//! into gen_programs.rs by gen/skeletons.py.
use crate::alg::Alg;
use corgi::numbers::Float;

pub trait Program {
    /// builds the graph over the leaves; returns every node of interest, the result last
    fn run<A: Alg>(&self, l: &[A]) -> Vec<A>;
}

macro_rules! program {
    ($(#[$m:meta])* $name:ident, |$l:ident| $body:block) => {
        $(#[$m])*
        pub struct $name;
        impl Program for $name {
            fn run<A: Alg>(&self, $l: &[A]) -> Vec<A> $body
        }
    };
}

// ---- single operations (C02 / C03 / C07 / C09) -----------------------------------------
pub struct Add;
impl Program for Add {
    fn run<A: Alg>(&self, l: &[A]) -> Vec<A> {
        vec![l[0].add(&l[1])]
    }
}
pub struct Sub;
impl Program for Sub {
    fn run<A: Alg>(&self, l: &[A]) -> Vec<A> {
        vec![l[0].sub(&l[1])]
    }
}
pub struct Mul;
impl Program for Mul {
    fn run<A: Alg>(&self, l: &[A]) -> Vec<A> {
        vec![l[0].mul(&l[1])]
    }
}
pub struct Div;
impl Program for Div {
    fn run<A: Alg>(&self, l: &[A]) -> Vec<A> {
        vec![l[0].div(&l[1])]
    }
}
pub struct Axpy(pub Float);
impl Program for Axpy {
    fn run<A: Alg>(&self, l: &[A]) -> Vec<A> {
        vec![A::axpy(self.0, &l[0], &l[1])]
    }
}
pub struct Neg;
impl Program for Neg {
    fn run<A: Alg>(&self, l: &[A]) -> Vec<A> {
        vec![l[0].neg()]
    }
}
pub struct Scale(pub Float);
impl Program for Scale {
    fn run<A: Alg>(&self, l: &[A]) -> Vec<A> {
        vec![l[0].scale(self.0)]
    }
}
pub struct LScale(pub Float);
impl Program for LScale {
    fn run<A: Alg>(&self, l: &[A]) -> Vec<A> {
        vec![l[0].lscale(self.0)]
    }
}
pub struct Powf(pub Float);
impl Program for Powf {
    fn run<A: Alg>(&self, l: &[A]) -> Vec<A> {
        vec![l[0].powf(self.0)]
    }
}
pub struct Ln;
impl Program for Ln {
    fn run<A: Alg>(&self, l: &[A]) -> Vec<A> {
        vec![l[0].ln()]
    }
}
pub struct Exp;
impl Program for Exp {
    fn run<A: Alg>(&self, l: &[A]) -> Vec<A> {
        vec![l[0].exp()]
    }
}
pub struct Recip;
impl Program for Recip {
    fn run<A: Alg>(&self, l: &[A]) -> Vec<A> {
        vec![l[0].recip()]
    }
}
pub struct Sum(pub usize);
impl Program for Sum {
    fn run<A: Alg>(&self, l: &[A]) -> Vec<A> {
        vec![l[0].sum(self.0)]
    }
}
pub struct Reshape(pub &'static [usize]);
impl Program for Reshape {
    fn run<A: Alg>(&self, l: &[A]) -> Vec<A> {
        vec![l[0].reshape(self.0)]
    }
}
/// matmul(l0, l1 [, l2]) with transposition flags
pub struct Matmul {
    pub at: bool,
    pub bt: bool,
    pub c: bool,
}
impl Program for Matmul {
    fn run<A: Alg>(&self, l: &[A]) -> Vec<A> {
        vec![A::matmul(&l[0], self.at, &l[1], self.bt, if self.c { Some(&l[2]) } else { None })]
    }
}
pub struct Conv(pub (usize, usize));
impl Program for Conv {
    fn run<A: Alg>(&self, l: &[A]) -> Vec<A> {
        vec![l[0].conv(&l[1], self.0)]
    }
}
pub struct Relu;
impl Program for Relu {
    fn run<A: Alg>(&self, l: &[A]) -> Vec<A> {
        vec![l[0].relu()]
    }
}
pub struct Sigmoid;
impl Program for Sigmoid {
    fn run<A: Alg>(&self, l: &[A]) -> Vec<A> {
        vec![l[0].sigmoid()]
    }
}
pub struct Softmax;
impl Program for Softmax {
    fn run<A: Alg>(&self, l: &[A]) -> Vec<A> {
        vec![l[0].softmax()]
    }
}

// ---- curated graphs (C01 and the properties that reuse its programs) ------------------
program!(
    /// a*b + a  (fan-out 2 on a)
    MulAddShare, |l| {
        let p = l[0].mul(&l[1]);
        let r = p.add(&l[0]);
        vec![p, r]
    }
);
program!(
    /// diamond of the suite's test_backward_multi: e = a * ((a*b) + a)
    Diamond, |l| {
        let c = l[0].mul(&l[1]);
        let d = c.add(&l[0]);
        let e = l[0].mul(&d);
        vec![c, d, e]
    }
);
program!(
    /// self-product x*x
    Square, |l| { vec![l[0].mul(&l[0])] }
);
program!(
    /// chain of self-products depth 3: ((x*x)*(x*x)) squared again - 8 paths
    SquareChain3, |l| {
        let a = l[0].mul(&l[0]);
        let b = a.mul(&a);
        let c = b.mul(&b);
        vec![a, b, c]
    }
);
program!(
    /// chain of depth 5 mixing operators: ((((a*b)+a)*b)-a)*a
    Chain5, |l| {
        let n1 = l[0].mul(&l[1]);
        let n2 = n1.add(&l[0]);
        let n3 = n2.mul(&l[1]);
        let n4 = n3.sub(&l[0]);
        let n5 = n4.mul(&l[0]);
        vec![n1, n2, n3, n4, n5]
    }
);
program!(
    /// fan-out 3: x used by three different consumers that are then combined
    Fan3, |l| {
        let p = l[0].mul(&l[1]);
        let q = l[0].add(&l[1]);
        let r = l[0].neg();
        let s = p.add(&q);
        let t = s.mul(&r);
        vec![p, q, r, s, t]
    }
);
program!(
    /// broadcasting with sharing: m [2,3], v [3]:  (m*v + v) * m
    BcastShare, |l| {
        let p = l[0].mul(&l[1]);
        let q = p.add(&l[1]);
        let r = q.mul(&l[0]);
        vec![p, q, r]
    }
);
program!(
    /// broadcast operand used twice with different partners: x∘y1 + x∘y2
    BcastTwice, |l| {
        let p = l[0].mul(&l[1]);
        let q = l[0].mul(&l[2]);
        let r = p.add(&q);
        vec![p, q, r]
    }
);
program!(
    /// broadcast operand used three times
    BcastThrice, |l| {
        let p = l[0].mul(&l[1]);
        let q = l[0].mul(&l[2]);
        let r = l[0].add(&l[3]);
        let s = p.add(&q);
        let t = s.add(&r);
        vec![p, q, r, s, t]
    }
);
program!(
    /// unary mix: -(2*a) * b + a.powf(2)
    UnaryMix, |l| {
        let n = l[0].scale(2.0).neg();
        let p = n.mul(&l[1]);
        let q = l[0].powf(2.0);
        vec![p.add(&q)]
    }
);
program!(
    /// a / b + reciprocal(b) * a
    DivRecip, |l| {
        let p = l[0].div(&l[1]);
        let q = l[1].recip().mul(&l[0]);
        vec![p.add(&q)]
    }
);
program!(
    /// sum with sharing: a / a.sum(1)  (the suite's test_backward_div_sum, symbolic values)
    DivSum, |l| { let s = l[0].sum(1); vec![l[0].div(&s)] }
);
program!(
    /// sum(2) feeding a broadcast product: (a.sum(2) * a)
    SumBcast, |l| { let s = l[0].sum(2); vec![s.mul(&l[0])] }
);
program!(
    /// reshape inside a graph: (a.reshape([3,2]) * b).reshape([2,3]) + a
    ReshapeMix, |l| {
        let r = l[0].reshape(&[3, 2]);
        let p = r.mul(&l[1]);
        let q = p.reshape(&[2, 3]);
        vec![q.add(&l[0])]
    }
);
program!(
    /// dense-like: matmul(x, w^T, b) * x2, sharing w through a second product
    MatmulShare, |l| {
        let y = A::matmul(&l[0], false, &l[1], true, Some(&l[2]));
        let z = A::matmul(&y, false, &l[1], false, None);
        vec![y, z]
    }
);
program!(
    /// relu in a graph: relu(a*b) + a
    ReluMix, |l| { let p = l[0].mul(&l[1]).relu(); vec![p.add(&l[0])] }
);
program!(
    /// relu(x) + x: the relu's operand has a second consumer
    ReluShare, |l| { let p = l[0].relu(); vec![p.add(&l[0])] }
);
program!(
    /// exp/ln round: ln(a) * b + exp(c)
    LnExp, |l| { let p = l[0].ln().mul(&l[1]); vec![p.add(&l[2].exp())] }
);
program!(
    /// stop-gradient on an intermediate: (a*b).detach() * a + b
    DetachMid, |l| {
        let p = l[0].mul(&l[1]).detach();
        let q = p.mul(&l[0]);
        vec![q.add(&l[1])]
    }
);
program!(
    /// `.tracked()` on intermediates (keeps their gradients)
    KeepMid, |l| {
        let c = l[0].mul(&l[1]).keep();
        let d = c.add(&l[0]).keep();
        let e = l[0].mul(&d).keep();
        vec![c, d, e]
    }
);
program!(
    /// conv followed by a broadcast bias and a product with the image-independent mask
    ConvBias, |l| { let c = l[0].conv(&l[1], (1, 1)); vec![c.add(&l[2])] }
);

program!(
    /// conv of a batch followed by a non-linear consumer (the adjoint differs between images)
    ConvSquare, |l| {
        let y = l[0].conv(&l[1], (1, 1));
        let r = y.mul(&y);
        vec![y, r]
    }
);
program!(
    /// two results sharing a sub-graph: p = a*b, r1 = p + a, r2 = p * b
    TwoRoots, |l| {
        let p = l[0].mul(&l[1]);
        let r1 = p.add(&l[0]);
        let r2 = p.mul(&l[1]);
        vec![p, r1, r2]
    }
);
program!(
    /// self-products depth 5: 32 paths
    SquareChain5, |l| {
        let a = l[0].mul(&l[0]);
        let b = a.mul(&a);
        let c = b.mul(&b);
        let d = c.mul(&c);
        let e = d.mul(&d);
        vec![a, b, c, d, e]
    }
);
program!(
    /// self-products depth 6: 64 paths
    SquareChain6, |l| {
        let a = l[0].mul(&l[0]);
        let b = a.mul(&a);
        let c = b.mul(&b);
        let d = c.mul(&c);
        let e = d.mul(&d);
        let f = e.mul(&e);
        vec![a, b, c, d, e, f]
    }
);
program!(
    /// fan-out 3 with add/mul only (C11): x consumed by three nodes that are then combined
    FanOut3, |l| {
        let p = l[0].mul(&l[1]);
        let q = l[0].add(&l[1]);
        let r = l[0].mul(&l[0]);
        let s = p.add(&q);
        let t = s.mul(&r);
        vec![p, q, r, s, t]
    }
);

program!(
    /// (C11) a node consumed same-shape by one custom op and as the broadcast operand of another
    BcastCustom, |l| {
        let n0 = l[0].mul(&l[1]);
        let n1 = n0.mul(&l[1]);
        let n2 = l[2].mul(&n0);
        // n1 first: the same-shape contribution reaches n0 before the broadcast one
        let n3 = n1.add(&n2);
        vec![n0, n1, n2, n3]
    }
);
program!(
    /// (C11) an operation node that is tracked but does not keep its gradient, consumed twice
    RetrackedSquare, |l| {
        let k = l[0].mul(&l[1]).retrack();
        let y = k.mul(&k);
        vec![k, y]
    }
);
program!(
    /// (C11) a node used through a tracked handle and through a detached handle by one consumer
    DetachedUse, |l| {
        let y = l[0].mul(&l[1]);
        let d = y.clone().detach();
        let z = y.mul(&d);
        vec![y, z]
    }
);

include!("gen_programs.rs");
