//! corgi-verif: Kani proof harnesses over the real corgi code (see /verif/DESIGN.md).
#![allow(clippy::all)]
#![allow(dead_code)]

pub mod refmodel;
pub mod source;
pub mod alg;
pub mod programs;
pub mod stubs;
pub mod util;
pub mod cases;
pub mod registry;

#[cfg(kani)]
mod gen;
#[cfg(kani)]
mod probe;
