//! Native replayer (DESIGN.md §3.5): runs an obligation's body on the real corgi build
//! with the values of a recorded counterexample.
//!
//!   replay <obligation-id> <replay.json>     exit 0: body ran to its end, 1: it panicked
//!
//! The replay file is JSON with a key "values": [[b0,b1,..],[..],..] - one byte vector per
//! `kani::any()` in call order, as printed by `--concrete-playback=print`.
use corgi_verif::registry;
use corgi_verif::source::ReplaySource;
use std::panic;
use std::sync::Mutex;

static LAST: Mutex<Option<(String, String)>> = Mutex::new(None);

fn parse_values(text: &str) -> Vec<Vec<u8>> {
    let k = text.find("\"values\": [").expect("no \"values\" key in replay file");
    let rest = &text[k..];
    let start = rest.find('[').expect("values is not a list");
    let mut out: Vec<Vec<u8>> = Vec::new();
    let mut depth = 0;
    let mut cur: Vec<u8> = Vec::new();
    let mut num = String::new();
    for ch in rest[start..].chars() {
        match ch {
            '[' => {
                depth += 1;
                if depth == 2 {
                    cur = Vec::new();
                }
            }
            ']' => {
                if !num.is_empty() {
                    cur.push(num.parse::<u16>().unwrap() as u8);
                    num.clear();
                }
                if depth == 2 {
                    out.push(cur.clone());
                }
                depth -= 1;
                if depth == 0 {
                    break;
                }
            }
            ',' => {
                if !num.is_empty() {
                    cur.push(num.parse::<u16>().unwrap() as u8);
                    num.clear();
                }
            }
            c if c.is_ascii_digit() => num.push(c),
            _ => {}
        }
    }
    out
}

fn esc(s: &str) -> String {
    s.replace('\\', "\\\\").replace('"', "\\\"").replace('\n', " ")
}

fn main() {
    let args: Vec<String> = std::env::args().collect();
    if args.len() == 5 && args[1] == "--smoke" {
        // replay --smoke <obligation-id> <seed> <count>: body on pseudo-random inputs
        let id = args[2].clone();
        let seed: u64 = args[3].parse().unwrap();
        let count: u64 = args[4].parse().unwrap();
        panic::set_hook(Box::new(|_| {}));
        let mut panics = 0;
        let mut skipped = 0;
        let mut first = String::new();
        for k in 0..count {
            let id2 = id.clone();
            let r = panic::catch_unwind(move || {
                let mut s = ReplaySource::random(seed * 1000003 + k);
                registry::run(&id2, &mut s)
            });
            match r {
                Ok(true) => {}
                Ok(false) => {
                    println!("{{\"error\": \"unknown obligation\"}}");
                    std::process::exit(3);
                }
                Err(e) => {
                    let msg = if let Some(s) = e.downcast_ref::<&str>() {
                        s.to_string()
                    } else if let Some(s) = e.downcast_ref::<String>() {
                        s.clone()
                    } else {
                        "<non-string panic>".to_string()
                    };
                    if msg.starts_with("[replay]") {
                        // the random values do not satisfy the obligation's assumption: not a run
                        skipped += 1;
                        continue;
                    }
                    panics += 1;
                    if first.is_empty() {
                        first = msg;
                    }
                }
            }
        }
        println!("{{\"runs\": {}, \"panics\": {}, \"first\": \"{}\"}}", count - skipped, panics, esc(&first));
        std::process::exit(if panics == 0 { 0 } else { 1 });
    }
    if args.len() != 3 {
        eprintln!("usage: replay <obligation-id> <replay.json>");
        std::process::exit(3);
    }
    let text = std::fs::read_to_string(&args[2]).expect("cannot read replay file");
    let values = parse_values(&text);
    let n = values.len();
    panic::set_hook(Box::new(|info| {
        let msg = if let Some(s) = info.payload().downcast_ref::<&str>() {
            s.to_string()
        } else if let Some(s) = info.payload().downcast_ref::<String>() {
            s.clone()
        } else {
            "<non-string panic>".to_string()
        };
        let loc = info
            .location()
            .map(|l| format!("{}:{}:{}", l.file(), l.line(), l.column()))
            .unwrap_or_default();
        let mut g = LAST.lock().unwrap();
        // keep the first panic (a second one can only come from unwinding)
        if g.is_none() {
            *g = Some((msg, loc));
        }
    }));
    let id = args[1].clone();
    let res = panic::catch_unwind(move || {
        let mut s = ReplaySource::new(values);
        let known = registry::run(&id, &mut s);
        (known, s.consumed)
    });
    match res {
        Ok((false, _)) => {
            println!("{{\"error\": \"unknown obligation\"}}");
            std::process::exit(3);
        }
        Ok((true, consumed)) => {
            println!(
                "{{\"panicked\": false, \"recorded\": {}, \"consumed\": {}}}",
                n, consumed
            );
            std::process::exit(0);
        }
        Err(_) => {
            let g = LAST.lock().unwrap();
            let (msg, loc) = g.clone().unwrap_or_default();
            println!(
                "{{\"panicked\": true, \"message\": \"{}\", \"location\": \"{}\", \"recorded\": {}}}",
                esc(&msg),
                esc(&loc),
                n
            );
            std::process::exit(1);
        }
    }
}
