//! C04 — element-wise operations follow right-aligned broadcasting, or refuse.
use crate::chk;
use crate::refmodel::{self, Bin};
use crate::source::{Dom, Source};
use crate::util::*;
use corgi::array::Array;

#[derive(Clone, Copy, Debug, PartialEq, Eq)]
pub enum Ew {
    Add,
    Sub,
    Mul,
    Div,
    Axpy,
}

fn apply<S: Source>(s: &mut S, op: Ew, a: &Array, b: &Array) -> (Array, refmodel::T) {
    let (ra, rb) = (konst(a, 0), konst(b, 0));
    match op {
        Ew::Add => (a + b, ra.bin(Bin::Add, &rb).unwrap()),
        Ew::Sub => (a - b, ra.bin(Bin::Sub, &rb).unwrap()),
        Ew::Mul => (a * b, ra.bin(Bin::Mul, &rb).unwrap()),
        Ew::Div => (a / b, ra.bin(Bin::Div, &rb).unwrap()),
        Ew::Axpy => {
            let alpha = s.scale();
            (Array::axpy(alpha, a, b), ra.scale(alpha).bin(Bin::Add, &rb).unwrap())
        }
    }
}

/// compatible pair: result has the pairwise-maximum dimensions and every element is the
/// scalar operation applied to the right-aligned-broadcast operand elements
pub fn values<S: Source>(s: &mut S, op: Ew, da: &[usize], db: &[usize]) {
    let a = mk(s, da, Dom::D4);
    let b = mk(s, db, if op == Ew::Div { Dom::Pos } else { Dom::D4 });
    let (r, e) = apply(s, op, &a, &b);
    chk!(dims_eq(r.dimensions(), &e.d), "[C04:dims] result dimensions are not the pairwise maximum");
    chk!(r.values().len() == e.v.len(), "[C04:len] result length");
    for i in 0..e.v.len() {
        chk!(r.values()[i] == e.v[i], "[C04:value] element differs from the broadcast definition");
    }
    witness();
    forget((a, b, r));
}

/// full-width anchor of the data-independence argument: shape [1], *every* pair of float bit
/// patterns (NaN agrees with NaN)
pub fn values_full<S: Source>(s: &mut S, op: Ew) {
    let a = mk(s, &[1], Dom::Full);
    let b = mk(s, &[1], Dom::Full);
    let (x, y) = (a.values()[0], b.values()[0]);
    let (r, e) = match op {
        Ew::Add => (&a + &b, x + y),
        Ew::Sub => (&a - &b, x + (y * -1.0)),
        Ew::Mul => (&a * &b, x * y),
        Ew::Div => (&a / &b, x / y),
        Ew::Axpy => (Array::axpy(2.0, &a, &b), 2.0 * x + y),
    };
    chk!(dims_eq(r.dimensions(), &[1]), "[C04:dims] result dimensions are not the pairwise maximum");
    let v = r.values()[0];
    chk!(v == e || (v != v && e != e), "[C04:value] element differs from the broadcast definition");
    witness();
    forget((a, b, r));
}

/// incompatible pair: the operation must panic on every path
pub fn refusal<S: Source>(s: &mut S, op: Ew, da: &[usize], db: &[usize]) {
    let a = mk(s, da, Dom::D4);
    let b = mk(s, db, if op == Ew::Div { Dom::Pos } else { Dom::D4 });
    let r = match op {
        Ew::Add => &a + &b,
        Ew::Sub => &a - &b,
        Ew::Mul => &a * &b,
        Ew::Div => &a / &b,
        Ew::Axpy => Array::axpy(2.0, &a, &b),
    };
    forget((a, b, r));
    chk!(false, "[C04:refusal-missing] incompatible shapes were accepted");
}

/// The broadcast shape rule with *symbolic* dimensions (any extent in 1..=65536, ranks fixed
/// per obligation), through the hook `verif_element_wise_dimensions`: pairwise maximum when
/// compatible (`expect_ok`), refusal otherwise.
#[cfg(any(kani, corgi_verif))]
pub fn shape_rule<S: Source>(s: &mut S, ra: usize, rb: usize, expect_ok: bool) {
    let mut a = Vec::with_capacity(ra);
    let mut b = Vec::with_capacity(rb);
    for _ in 0..ra {
        a.push(1 + s.size(65536));
    }
    for _ in 0..rb {
        b.push(1 + s.size(65536));
    }
    let r = if ra > rb { ra } else { rb };
    let mut ok = true;
    let mut e = vec![0usize; r];
    for k in 0..r {
        let x = if k < ra { a[ra - 1 - k] } else { 1 };
        let y = if k < rb { b[rb - 1 - k] } else { 1 };
        ok &= x == y || x == 1 || y == 1;
        e[r - 1 - k] = if x > y { x } else { y };
    }
    #[cfg(kani)]
    kani::assume(ok == expect_ok);
    #[cfg(not(kani))]
    assert!(ok == expect_ok, "[replay] recorded values violate the assumption");
    let d = corgi::array::verif_element_wise_dimensions(&a, &b);
    if expect_ok {
        chk!(dims_eq(&d, &e), "[C04:shape-rule] broadcast dimensions are not the pairwise maximum");
        witness();
    } else {
        chk!(false, "[C04:refusal-missing] incompatible shapes were accepted");
    }
}
#[cfg(not(any(kani, corgi_verif)))]
pub fn shape_rule<S: Source>(_s: &mut S, _ra: usize, _rb: usize, _expect_ok: bool) {
    panic!("[replay] built without --cfg corgi_verif");
}
