//! C10 — gradients accumulate additively across passes; a finished pass leaves no residue.
use crate::chk;
use crate::programs::Program;
use crate::refmodel::{self, T};
use crate::source::{Dom, Source};
use crate::util::*;
use crate::cases::grad::*;
use corgi::array::Array;
use corgi::numbers::Float;

#[derive(Clone, Copy, PartialEq, Eq)]
pub enum Step {
    /// backward(seed) on node `i` of the program (nodes as returned by Program::run)
    Back(usize),
    /// backward with a concrete all-zero seed
    BackZero(usize),
    /// backward(None) (concrete all-ones seed)
    BackNone(usize),
    /// leaf i: `replace_gradient()`
    Replace(usize),
    /// leaf i: `*gradient_mut() = None`
    ClearMut(usize),
    /// drop the harness's handle on node i (a real drop; the graph keeps its own clones)
    DropNode(usize),
}

/// Runs the history; every tracked leaf must hold the sum of the gradients the individual
/// passes would have produced alone, counted from its last clearing.
pub fn history<P: Program, S: Source>(s: &mut S, p: &P, leaves: &[Leaf], steps: &[Step], probe: bool) {
    let b = build(s, leaves);
    let nodes = p.run::<Array>(&b.arrays);
    let rnodes = p.run::<T>(&b.refs);
    let mut live: Vec<Option<Array>> = Vec::with_capacity(nodes.len());
    for n in nodes {
        live.push(Some(n));
    }
    // expected gradient per direction, and whether the leaf holds one at all
    let mut expect: Vec<Float> = vec![0.0; b.ndir];
    let mut has: Vec<bool> = vec![false; leaves.len()];
    for st in steps {
        match *st {
            Step::Back(i) | Step::BackZero(i) | Step::BackNone(i) => {
                let node = live[i].as_ref().unwrap();
                let kind = match *st {
                    Step::BackZero(_) => Seed::Explicit(Dom::Zero),
                    Step::BackNone(_) => Seed::Omitted,
                    _ => Seed::Explicit(Dom::D4),
                };
                let (arg, seedv) = draw_seed(s, node, kind);
                node.backward(arg);
                let g = refmodel::vjp_all(&rnodes[i], &seedv);
                // which leaves does node i reach through tracked paths?
                for (li, l) in leaves.iter().enumerate() {
                    if let Some(first) = b.first_dir[li] {
                        let mut reached = false;
                        for row in rnodes[i].t.iter() {
                            for &(d, _) in row.iter() {
                                if d >= first && d < first + refmodel::numel(l.d) {
                                    reached = true;
                                }
                            }
                        }
                        if reached {
                            has[li] = true;
                            for k in 0..refmodel::numel(l.d) {
                                expect[first + k] += g[first + k];
                            }
                        }
                    }
                }
                #[cfg(any(kani, corgi_verif))]
                if probe {
                    clean(node);
                    for a in b.arrays.iter() {
                        chk!(a.verif_consumer_count() == 0, "[c10:residue-count] a finished pass left a consumer count behind");
                        chk!(!a.verif_has_pending_delta(), "[c10:residue-delta] a finished pass left a pending partial adjoint behind");
                    }
                }
            }
            Step::Replace(li) => {
                let g = b.arrays[li].replace_gradient();
                forget(g);
                has[li] = false;
                zero(&mut expect, &b, leaves, li);
            }
            Step::ClearMut(li) => {
                let old = std::mem::replace(&mut *b.arrays[li].gradient_mut(), None);
                forget(old);
                has[li] = false;
                zero(&mut expect, &b, leaves, li);
            }
            Step::DropNode(i) => {
                let n = live[i].take();
                drop(n);
            }
        }
    }
    for (li, l) in leaves.iter().enumerate() {
        let g = b.arrays[li].gradient();
        match b.first_dir[li] {
            None => chk!(g.is_none(), "[grad:untracked-leaf] an untracked leaf received a gradient"),
            Some(first) => {
                chk!(g.is_some() == has[li], "[c10:presence] gradient present iff some pass since the last clearing reached the leaf");
                if let Some(g) = g.as_ref() {
                    chk!(dims_eq(g.dimensions(), l.d), "[grad:dims] gradient dimensions differ from the array's");
                    for k in 0..refmodel::numel(l.d) {
                        chk!(g.values()[k] == expect[first + k], "[c10:sum] gradient is not the sum of the individual passes since the last clearing");
                    }
                }
            }
        }
    }
    witness();
    forget((b.arrays, live));
}

/// two passes through the same point-wise node (its backward closure may cache values): the
/// second pass must deliver the same derivative as the first
pub fn pointwise_twice<S: Source>(s: &mut S, which: usize) {
    let a = mk(s, &[2], if which == 1 { Dom::Sgn } else { Dom::D2 }).tracked();
    let r = match which {
        0 => a.sigmoid(),
        1 => a.relu(),
        2 => a.exp(),
        _ => a.powf(2.0),
    };
    let seed1 = s.vals(2, Dom::D4);
    let seed2 = s.vals(2, Dom::D4);
    r.backward(Some(Array::from((vec![2], seed1.clone()))));
    let g1: Vec<Float> = a.gradient().as_ref().unwrap().values().to_vec();
    let cleared = a.replace_gradient();
    r.backward(Some(Array::from((vec![2], seed2.clone()))));
    let g2: Vec<Float> = a.gradient().as_ref().unwrap().values().to_vec();
    for i in 0..2 {
        // the derivative d is the same in both passes: g1 = s1*d, g2 = s2*d  =>  g1*s2 == g2*s1
        chk!(same(g1[i] * seed2[i], g2[i] * seed1[i], true), "[c10:closure-state] a second pass through the same node used a different derivative");
    }
    witness();
    forget((a, r, cleared));
}

/// a reshape to the dimensions the array already has is still a node of its own: a pass on a
/// result that shares the leaf but not the reshaped node leaves the reshaped node's gradient
/// alone, and clearing the node's gradient leaves the leaf's alone
pub fn reshape_alias<S: Source>(s: &mut S) {
    let x = mk(s, &[2], Dom::D4).tracked();
    let w = mk(s, &[2], Dom::D4);
    let v = mk(s, &[2], Dom::D4);
    let y = x.reshape(vec![2]);
    let r1 = &y * &w;
    let r2 = &x * &v;
    r1.backward(None);
    r2.backward(None);
    let gy = y.gradient();
    chk!(gy.is_some(), "[c10:presence] gradient present iff some pass since the last clearing reached the leaf");
    if let Some(gy) = gy.as_ref() {
        chk!(vals_eq(gy.values(), w.values()), "[c10:sum] gradient is not the sum of the individual passes since the last clearing");
    }
    std::mem::drop(gy);
    let gx = x.gradient();
    if let Some(gx) = gx.as_ref() {
        for i in 0..2 {
            chk!(gx.values()[i] == w.values()[i] + v.values()[i], "[c10:sum] gradient is not the sum of the individual passes since the last clearing");
        }
    }
    std::mem::drop(gx);
    let c = y.replace_gradient();
    chk!(x.gradient().is_some(), "[c10:clear-alias] clearing a derived node's gradient cleared the leaf's");
    witness();
    forget((x, w, v, y, r1, r2, c));
}

fn zero(expect: &mut [Float], b: &Built, leaves: &[Leaf], li: usize) {
    if let Some(first) = b.first_dir[li] {
        for k in 0..refmodel::numel(leaves[li].d) {
            expect[first + k] = 0.0;
        }
    }
}

/// clean-state invariant below `node` (hook): counters 0, nothing pending
#[cfg(any(kani, corgi_verif))]
fn clean(node: &Array) {
    chk!(node.verif_consumer_count() == 0, "[c10:residue-count] a finished pass left a consumer count behind");
    chk!(!node.verif_has_pending_delta(), "[c10:residue-delta] a finished pass left a pending partial adjoint behind");
    for c in node.verif_children() {
        chk!(c.verif_consumer_count() == 0, "[c10:residue-count] a finished pass left a consumer count behind");
        chk!(!c.verif_has_pending_delta(), "[c10:residue-delta] a finished pass left a pending partial adjoint behind");
        for cc in c.verif_children() {
            chk!(cc.verif_consumer_count() == 0, "[c10:residue-count] a finished pass left a consumer count behind");
            chk!(!cc.verif_has_pending_delta(), "[c10:residue-delta] a finished pass left a pending partial adjoint behind");
        }
    }
}
