//! One algebra, two interpretations: a program written against `Alg` runs on corgi's
//! `Array` (the code under verification) and on the reference tensor `T` (the oracle).
use crate::refmodel::{self, Bin, T};
use corgi::array::Array;
use corgi::numbers::Float;

pub trait Alg: Clone {
    fn add(&self, o: &Self) -> Self;
    fn sub(&self, o: &Self) -> Self;
    fn mul(&self, o: &Self) -> Self;
    fn div(&self, o: &Self) -> Self;
    fn neg(&self) -> Self;
    fn scale(&self, c: Float) -> Self;
    /// `c * &x` (the Float-on-the-left operator)
    fn lscale(&self, c: Float) -> Self;
    fn powf(&self, e: Float) -> Self;
    fn ln(&self) -> Self;
    fn exp(&self) -> Self;
    fn recip(&self) -> Self;
    fn sum(&self, k: usize) -> Self;
    fn reshape(&self, d: &[usize]) -> Self;
    fn matmul(a: &Self, at: bool, b: &Self, bt: bool, c: Option<&Self>) -> Self;
    fn conv(&self, f: &Self, stride: (usize, usize)) -> Self;
    fn relu(&self) -> Self;
    fn sigmoid(&self) -> Self;
    fn softmax(&self) -> Self;
    fn axpy(alpha: Float, x: &Self, y: &Self) -> Self;
    /// stop-gradient: the handle is marked untracked before it is used further
    fn detach(self) -> Self;
    /// `.tracked()` on an intermediate (keeps its gradient; no effect on the mathematics)
    fn keep(self) -> Self;
    /// `.untracked()` followed by `start_tracking()`: tracked again, but without the keep flag
    fn retrack(self) -> Self;
}

impl Alg for Array {
    fn add(&self, o: &Self) -> Self {
        self + o
    }
    fn sub(&self, o: &Self) -> Self {
        self - o
    }
    fn mul(&self, o: &Self) -> Self {
        self * o
    }
    fn div(&self, o: &Self) -> Self {
        self / o
    }
    fn neg(&self) -> Self {
        -self
    }
    fn scale(&self, c: Float) -> Self {
        self * c
    }
    fn lscale(&self, c: Float) -> Self {
        c * self
    }
    fn powf(&self, e: Float) -> Self {
        Array::powf(self, e)
    }
    fn ln(&self) -> Self {
        Array::ln(self)
    }
    fn exp(&self) -> Self {
        Array::exp(self)
    }
    fn recip(&self) -> Self {
        self.reciprocal()
    }
    fn sum(&self, k: usize) -> Self {
        Array::sum(self, k)
    }
    fn reshape(&self, d: &[usize]) -> Self {
        Array::reshape(self, d.to_vec())
    }
    fn matmul(a: &Self, at: bool, b: &Self, bt: bool, c: Option<&Self>) -> Self {
        Array::matmul((a, at), (b, bt), c)
    }
    fn conv(&self, f: &Self, stride: (usize, usize)) -> Self {
        Array::conv(self, f, stride)
    }
    fn relu(&self) -> Self {
        Array::relu(self)
    }
    fn sigmoid(&self) -> Self {
        Array::sigmoid(self)
    }
    fn softmax(&self) -> Self {
        Array::softmax(self)
    }
    fn axpy(alpha: Float, x: &Self, y: &Self) -> Self {
        Array::axpy(alpha, x, y)
    }
    fn detach(self) -> Self {
        self.untracked()
    }
    fn keep(self) -> Self {
        self.tracked()
    }
    fn retrack(self) -> Self {
        let x = self.untracked();
        x.start_tracking();
        x
    }
}

impl Alg for T {
    fn add(&self, o: &Self) -> Self {
        self.bin(Bin::Add, o).expect("[ref] shapes not broadcastable")
    }
    fn sub(&self, o: &Self) -> Self {
        self.bin(Bin::Sub, o).expect("[ref] shapes not broadcastable")
    }
    fn mul(&self, o: &Self) -> Self {
        self.bin(Bin::Mul, o).expect("[ref] shapes not broadcastable")
    }
    fn div(&self, o: &Self) -> Self {
        self.bin(Bin::Div, o).expect("[ref] shapes not broadcastable")
    }
    fn neg(&self) -> Self {
        T::neg(self)
    }
    fn scale(&self, c: Float) -> Self {
        T::scale(self, c)
    }
    fn lscale(&self, c: Float) -> Self {
        T::scale(self, c)
    }
    fn powf(&self, e: Float) -> Self {
        // d/dx x^e = e·x^(e-1); for e = 0 the derivative is 0 everywhere
        if e == 0.0 {
            self.map(|_| 1.0, |_| 0.0)
        } else if e == 1.0 {
            self.clone()
        } else {
            self.map(move |x| x.powf(e), move |x| e * x.powf(e - 1.0))
        }
    }
    fn ln(&self) -> Self {
        self.map(|x| x.ln(), |x| 1.0 / x)
    }
    fn exp(&self) -> Self {
        self.map(|x| x.exp(), |x| x.exp())
    }
    fn recip(&self) -> Self {
        self.map(|x| 1.0 / x, |x| -1.0 / (x * x))
    }
    fn sum(&self, k: usize) -> Self {
        T::sum(self, k)
    }
    fn reshape(&self, d: &[usize]) -> Self {
        T::reshape(self, d).expect("[ref] reshape element count")
    }
    fn matmul(a: &Self, at: bool, b: &Self, bt: bool, c: Option<&Self>) -> Self {
        refmodel::matmul(a, at, b, bt, c).expect("[ref] matmul shapes")
    }
    fn conv(&self, f: &Self, stride: (usize, usize)) -> Self {
        refmodel::conv(self, f, stride).expect("[ref] conv shapes")
    }
    fn relu(&self) -> Self {
        self.map(
            |x| if x > 0.0 { x } else { 0.0 },
            |x| if x > 0.0 { 1.0 } else { 0.0 },
        )
    }
    fn sigmoid(&self) -> Self {
        let f = |x: Float| 1.0 / (1.0 + (-x).exp());
        self.map(f, move |x| f(x) * (1.0 - f(x)))
    }
    fn softmax(&self) -> Self {
        refmodel::softmax(self, |x: Float| x.exp())
    }
    fn axpy(alpha: Float, x: &Self, y: &Self) -> Self {
        T::scale(x, alpha).add(y)
    }
    fn detach(mut self) -> Self {
        for i in 0..self.v.len() {
            self.t[i].clear();
        }
        self
    }
    fn keep(self) -> Self {
        self
    }
    fn retrack(self) -> Self {
        self
    }
}
