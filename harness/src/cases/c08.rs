//! C08 — arrays are immutable: no operation changes an existing array's values or shape.
//! Each obligation is one short history over a pool of live handles; after *every* step the
//! body re-checks every live handle against the snapshot taken when the handle was created.
use crate::chk;
use crate::source::{Dom, Source};
use crate::util::*;
use corgi::array::Array;
use corgi::numbers::Float;
use corgi::optimizer::gd::GradientDescent;
use corgi::optimizer::Optimizer;

pub struct Snap {
    d: Vec<usize>,
    v: Vec<Float>,
}

pub fn snap(a: &Array) -> Snap {
    Snap {
        d: a.dimensions().to_vec(),
        v: a.values().to_vec(),
    }
}

pub fn unchanged(a: &Array, s: &Snap) {
    chk!(dims_eq(a.dimensions(), &s.d), "[c08:dims] an existing array's dimensions changed");
    chk!(vals_same_bits(a.values(), &s.v), "[c08:values] an existing array's values changed");
}

/// forward operations (element-wise with broadcasting, scale, sum, matmul) leave their
/// operands - and the clones recorded inside the graph - as they were
pub fn forward_ops<S: Source>(s: &mut S) {
    let a = mk(s, &[2, 2], Dom::D4).tracked();
    let b = mk(s, &[2], Dom::D4);
    let (sa, sb) = (snap(&a), snap(&b));
    let c = &a * &b;
    let sc = snap(&c);
    unchanged(&a, &sa);
    unchanged(&b, &sb);
    let d = &c + &a;
    unchanged(&a, &sa);
    unchanged(&c, &sc);
    let e = &d * 2.0;
    let f = e.sum(1);
    let g = Array::matmul((&a, false), (&c, true), Some(&b));
    unchanged(&a, &sa);
    unchanged(&b, &sb);
    unchanged(&c, &sc);
    witness();
    forget((a, b, c, d, e, f, g));
}

/// two backward passes (gradient accumulation): operands, result, the seed and a gradient
/// fetched after the first pass are unchanged by the second
pub fn backward_twice<S: Source>(s: &mut S) {
    let a = mk(s, &[2], Dom::D4).tracked();
    let b = mk(s, &[2], Dom::D4).tracked();
    let (sa, sb) = (snap(&a), snap(&b));
    let c = &a * &b;
    let sc = snap(&c);
    let seed = mk(s, &[2], Dom::D4);
    let sseed = snap(&seed);
    c.backward(Some(seed.clone()));
    unchanged(&a, &sa);
    unchanged(&b, &sb);
    unchanged(&c, &sc);
    unchanged(&seed, &sseed);
    // fetch the gradient (a handle onto the stored array)
    let fetched: Array = a.gradient().as_ref().unwrap().clone();
    let sf = snap(&fetched);
    c.backward(None);
    unchanged(&fetched, &sf);
    unchanged(&a, &sa);
    unchanged(&b, &sb);
    unchanged(&c, &sc);
    unchanged(&seed, &sseed);
    // clearing and a third pass do not touch it either
    let taken = a.replace_gradient();
    c.backward(None);
    unchanged(&fetched, &sf);
    witness();
    forget((a, b, c, seed, fetched, taken));
}

/// reshape returns a view sharing storage: neither side ever changes through the other
pub fn reshape_view<S: Source>(s: &mut S) {
    let a = mk(s, &[2, 2], Dom::D4).tracked();
    let sa = snap(&a);
    let v = a.reshape(vec![4]);
    let sv = snap(&v);
    chk!(vals_same_bits(v.values(), &sa.v), "[c08:view-order] reshape changed the row-major order");
    let r = &v * &v;
    let w = &a + &a;
    r.backward(None);
    unchanged(&a, &sa);
    unchanged(&v, &sv);
    let z = a.sum(0);
    unchanged(&z, &sa);
    witness();
    forget((a, v, r, w, z));
}

/// optimizer update replaces the handle's array and leaves every older handle intact
pub fn optimizer_update<S: Source>(s: &mut S) {
    let lr = s.lr();
    let mut p = mk(s, &[2], Dom::D4).tracked();
    let x = mk(s, &[2], Dom::D4);
    let old = p.clone();
    let so = snap(&old);
    let r = &p * &x;
    let sr = snap(&r);
    r.backward(None);
    let g: Array = p.gradient().as_ref().unwrap().clone();
    let sg = snap(&g);
    GradientDescent::new(lr).update(vec![&mut p]);
    unchanged(&old, &so);
    unchanged(&r, &sr);
    unchanged(&g, &sg);
    for i in 0..2 {
        chk!(p.values()[i] == so.v[i] - lr * sg.v[i], "[c08:update-value] the replaced parameter is not old - lr * gradient");
    }
    witness();
    forget((p, x, old, r, g));
}

/// a node whose first adjoint contribution arrives through an addition (which hands the *same*
/// delta buffer to both operands) and whose later one is a fresh array: the seed, the root's
/// gradient and the other operand's gradient all sit on that shared buffer and must not change
pub fn accumulate_shared<S: Source>(s: &mut S) {
    let a = mk(s, &[2], Dom::D4).tracked();
    let k = mk(s, &[2], Dom::D4);
    let (sa, sk) = (snap(&a), snap(&k));
    let p = &a * &k;
    let y = &a + &p;
    let (sp, sy) = (snap(&p), snap(&y));
    let seed = mk(s, &[2], Dom::D4);
    let sseed = snap(&seed);
    y.backward(Some(seed.clone()));
    unchanged(&seed, &sseed);
    unchanged(&a, &sa);
    unchanged(&k, &sk);
    unchanged(&p, &sp);
    unchanged(&y, &sy);
    // the root's and the product's stored gradients are the seed's values
    let gy: Array = y.gradient().as_ref().unwrap().clone();
    let gp: Array = p.gradient().as_ref().unwrap().clone();
    unchanged(&gy, &sseed);
    unchanged(&gp, &sseed);
    let ga: Array = a.gradient().as_ref().unwrap().clone();
    let sga = snap(&ga);
    y.backward(None);
    unchanged(&seed, &sseed);
    unchanged(&ga, &sga);
    witness();
    forget((a, k, p, y, seed, gy, gp, ga));
}

/// a storage-sharing view taken while the array was not (yet) tracked survives an optimizer
/// update that happens after the graph has been dropped
pub fn update_after_graph_dropped<S: Source>(s: &mut S, late_view: bool) {
    let lr = s.lr();
    let base = mk(s, &[2, 2], Dom::D4);
    let x = mk(s, &[2, 2], Dom::D4);
    let (view, mut w) = if late_view {
        let w = base.tracked();
        w.stop_tracking();
        let v = w.reshape(vec![1, 4]);
        w.start_tracking();
        (v, w)
    } else {
        let v = base.reshape(vec![4]);
        (v, base.tracked())
    };
    let sv = snap(&view);
    let old = snap(&w);
    let loss = (&w * &x).sum(2);
    loss.backward(None);
    let g: Vec<Float> = w.gradient().as_ref().unwrap().values().to_vec();
    drop(loss);
    GradientDescent::new(lr).update(vec![&mut w]);
    unchanged(&view, &sv);
    for i in 0..4 {
        chk!(w.values()[i] == old.v[i] - lr * g[i], "[c08:update-value] the replaced parameter is not old - lr * gradient");
    }
    witness();
    forget((view, w, x));
}

/// matmul with an additive term of exactly the product's shape, held by a single handle: the
/// term (the doc calls it "the output matrix") must not be accumulated into
pub fn matmul_addend<S: Source>(s: &mut S) {
    let a = mk(s, &[2, 2], Dom::D2);
    let b = mk(s, &[2, 2], Dom::D2);
    let c = mk(s, &[2, 2], Dom::D4);
    let (sa, sb, sc) = (snap(&a), snap(&b), snap(&c));
    let r = Array::matmul((&a, false), (&b, false), Some(&c));
    unchanged(&c, &sc);
    unchanged(&a, &sa);
    unchanged(&b, &sb);
    let v = mk(s, &[2], Dom::D4);
    let w = mk(s, &[2], Dom::D4);
    let k = mk(s, &[1], Dom::D4);
    let (sv, sw, sk) = (snap(&v), snap(&w), snap(&k));
    let d = Array::matmul((&v, false), (&w, false), Some(&k));
    unchanged(&k, &sk);
    unchanged(&v, &sv);
    unchanged(&w, &sw);
    witness();
    forget((a, b, c, r, v, w, k, d));
}

/// an activation closure receives its argument by value; an argument that still shares
/// storage with live handles (a clone, a view) must leave them as they were
pub fn activation_alias<S: Source>(s: &mut S) {
    let u = mk(s, &[2, 2], Dom::Sgn);
    let su = snap(&u);
    let view = u.reshape(vec![4]);
    let r = (corgi::activation::relu())(u.clone());
    unchanged(&u, &su);
    unchanged(&view, &su_as(&su, &[4]));
    for i in 0..4 {
        let x = su.v[i];
        chk!(r.values()[i] == if x > 0.0 { x } else { 0.0 }, "[c08:relu-value] relu through the activation closure");
    }
    let t = mk(s, &[2], Dom::Sgn).tracked();
    let st = snap(&t);
    let keep = t.clone();
    let q = (corgi::activation::relu())(t.clone());
    q.backward(None);
    unchanged(&t, &st);
    unchanged(&keep, &st);
    witness();
    forget((u, view, r, t, keep, q));
}

fn su_as(s: &Snap, d: &[usize]) -> Snap {
    Snap {
        d: d.to_vec(),
        v: s.v.clone(),
    }
}

/// an update over `[frozen, live]` (same element counts): the gradient-free parameter's handle is
/// left exactly as it was, the live one is replaced; and a gradient whose dimensions differ from
/// the parameter's (hand-supplied, same element count) does not change the handle's dimensions
pub fn optimizer_update_frozen<S: Source>(s: &mut S) {
    let lr = s.lr();
    let mut frozen = mk(s, &[2, 1], Dom::D4).tracked();
    let mut live = mk(s, &[1, 2], Dom::D4).tracked();
    let (sf, sl) = (snap(&frozen), snap(&live));
    let y = &live * &live;
    y.backward(None);
    let g: Vec<Float> = live.gradient().as_ref().unwrap().values().to_vec();
    let keep = (frozen.clone(), live.clone());
    GradientDescent::new(lr).update(vec![&mut frozen, &mut live]);
    unchanged(&frozen, &sf);
    unchanged(&keep.0, &sf);
    unchanged(&keep.1, &sl);
    chk!(dims_eq(live.dimensions(), &[1, 2]), "[c08:update-dims] the replaced parameter changed dimensions");
    for i in 0..2 {
        chk!(live.values()[i] == sl.v[i] - lr * g[i], "[c08:update-value] the replaced parameter is not old - lr * gradient");
    }
    // a hand-supplied gradient of another (broadcast-compatible) shape with the same element count
    let mut p = mk(s, &[2], Dom::D4).tracked();
    let sp = snap(&p);
    let h = s.vals(2, Dom::D4);
    *p.gradient_mut() = Some(Array::from((vec![1, 2], h.clone())));
    GradientDescent::new(lr).update(vec![&mut p]);
    chk!(dims_eq(p.dimensions(), &[2]), "[c08:update-dims] the replaced parameter changed dimensions");
    for i in 0..2 {
        chk!(p.values()[i] == sp.v[i] - lr * h[i], "[c08:update-value] the replaced parameter is not old - lr * gradient");
    }
    witness();
    forget((frozen, live, y, keep, p));
}

/// dropping other handles (a clone, a result that recorded the array) changes nothing
pub fn drop_others<S: Source>(s: &mut S) {
    let a = mk(s, &[2], Dom::D4).tracked();
    let b = mk(s, &[2], Dom::D4);
    let (sa, sb) = (snap(&a), snap(&b));
    let a2 = a.clone();
    let r = &a * &b;
    let r2 = &r + &a2;
    drop(a2);
    unchanged(&a, &sa);
    drop(r2);
    unchanged(&a, &sa);
    unchanged(&b, &sb);
    r.backward(None);
    drop(r);
    unchanged(&a, &sa);
    unchanged(&b, &sb);
    witness();
    forget((a, b));
}
