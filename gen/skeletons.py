#!/usr/bin/env python3
"""Enumerates the obligation skeletons (DESIGN.md §3.1) inside the stated bounds and
writes, from the same list,

  harness/src/gen/mod.rs        one #[kani::proof] per obligation
  harness/src/registry_gen.rs   native dispatch  id -> same body on ReplaySource
  harness/obligations.json      what each obligation fixes (skeleton), its tier, unwind,
                                stubs, domains - read by ./check and copied into evidence

Nothing here looks at values: a skeleton only fixes what DESIGN.md §2.2 says has to be
concrete (shapes, topology, flags, parameters selecting code paths).  Values, seeds,
learning rates are solver variables inside the harness bodies (harness/src/cases).
"""
import itertools
import json
import os
import sys

HERE = os.path.dirname(os.path.abspath(__file__))
ROOT = os.path.dirname(HERE)
sys.path.insert(0, HERE)

# obligations that did not finish inside the thorough limits (3600 s / 28 GB) in the validation sweeps:
# kept in the generator, run only with --only, claimed nowhere
NOT_FINISHING = {
    # (the remaining three-use obligations on [2,2] partners need 20-28 GB: marginal, out of memory in one of two sweeps)
    "c03_shape_1x1_2x2_u3_p1",
    "c03_shape_2_2x2_u3_p1",
    "c03_shape_2_2x2_u3_p2",
    "c03_shape_2x1_2x2_u3_p2",
    "c03_shape_2x2_2x2_u3_p1",
    # C03: three uses, or two uses with two passes, of a broadcast operand ran out of memory (28 GB) even on [2,2]
    # partners; the [2,3] / rank-3 / rank-4 multi-use variants were not reached by the validation sweep before the
    # end of the session (their single-use forms are in the quick core)
    "c03_shape_1_2x2_u2_p2",
    "c03_shape_1_2x2_u3_p1",
    "c03_shape_1_2x2_u3_p2",
    "c03_shape_1x1_2x2_u2_p2",
    "c03_shape_1x1_2x2_u3_p2",
    "c03_shape_1x1x2_2x2x2_u2_p1",
    "c03_shape_1x2_2x2_u2_p2",
    "c03_shape_1x2_2x2_u3_p1",
    "c03_shape_1x2_2x2_u3_p2",
    "c03_shape_1x2_2x2x2_u1_p2",
    "c03_shape_1x2_2x2x2_u2_p1",
    "c03_shape_1x2x1_2x2x2_u1_p2",
    "c03_shape_1x3_2x3_u1_p2",
    "c03_shape_1x3_2x3_u2_p1",
    "c03_shape_1x3_2x3_u2_p2",
    "c03_shape_1x3_2x3_u3_p1",
    "c03_shape_1x3_2x3_u3_p2",
    "c03_shape_2x1_1x2_u1_p2",
    "c03_shape_2x1_1x2_u2_p2",
    "c03_shape_2x1_1x2_u3_p1",
    "c03_shape_2x1_1x2_u3_p2",
    "c03_shape_2x1_1x3_u1_p2",
    "c03_shape_2x1_1x3_u2_p1",
    "c03_shape_2x1_1x3_u2_p2",
    "c03_shape_2x1_1x3_u3_p1",
    "c03_shape_2x1_1x3_u3_p2",
    "c03_shape_2x1_2x2_u3_p1",
    "c03_shape_2x1_2x2x2_u1_p2",
    "c03_shape_2x1_2x2x2_u2_p1",
    "c03_shape_2x1_2x3_u1_p2",
    "c03_shape_2x1_2x3_u2_p1",
    "c03_shape_2x1_2x3_u2_p2",
    "c03_shape_2x1_2x3_u3_p1",
    "c03_shape_2x1_2x3_u3_p2",
    "c03_shape_2x1x1x2_2x2x2x2_u1_p1",
    "c03_shape_2x1x1x2_2x2x2x2_u1_p2",
    "c03_shape_2x1x1x2_2x2x2x2_u2_p1",
    "c03_shape_2x1x2_2x2x1x2_u2_p1",
    "c03_shape_2x1x2_2x2x2_u1_p2",
    "c03_shape_2x2_2x2_u3_p2",
    "c03_shape_2x2_2x2x2_u2_p1",
    "c03_shape_3_2x3_u1_p2",
    "c03_shape_3_2x3_u2_p1",
    "c03_shape_3_2x3_u2_p2",
    "c03_shape_3_2x3_u3_p1",
    "c03_shape_3_2x3_u3_p2",
}

OBLIGATIONS = []
PROGRAMS = []  # (struct name, doc, rust body of run())
_ids = set()
_progs = set()


def program(name, doc, body):
    """register a generated program (emitted into harness/src/gen_programs.rs)"""
    if name in _progs:
        return
    _progs.add(name)
    PROGRAMS.append((name, doc, body))


def numel(d):
    n = 1
    for x in d:
        n *= x
    return n


def rs(d):
    """python list -> rust slice literal"""
    return "&[" + ", ".join(str(x) for x in d) + "]"


def sname(d):
    return "x".join(str(x) for x in d) if d else "s"


def ob(id, prop, family, call, unwind, tier="thorough", kind="holds", stubs=(), skeleton=None,
       domains="D4", heavy=False, f32=True):
    """register one obligation.

    tier   'quick'  : part of the fixed quick core (and of thorough)
           'thorough': thorough pool (quick draws VERIF_SEED-selected extras from it)
    kind   'holds' | 'refusal' | 'canary'
    heavy  scheduling hint (memory / time) for the driver
    f32    also valid under --features f32 (C19 re-runs the obligations of C01-C07 flagged so)
    """
    assert id not in _ids, id
    assert id.replace("_", "").isalnum(), id
    _ids.add(id)
    unwind = max(int(unwind), 7)   # floor: loops over dimensions of rank <= 5
    if id in NOT_FINISHING:
        tier = "experimental"
    OBLIGATIONS.append(dict(id=id, property=prop, family=family, call=call, unwind=int(unwind),
                            tier=tier, kind=kind, stubs=list(stubs), skeleton=skeleton or {},
                            domains=domains, heavy=heavy, f32=f32))


def bcast(a, b):
    r = max(len(a), len(b))
    out = []
    for k in range(r):
        x = a[len(a) - r + k] if len(a) - r + k >= 0 else 1
        y = b[len(b) - r + k] if len(b) - r + k >= 0 else 1
        if x == y or y == 1:
            out.append(x)
        elif x == 1:
            out.append(y)
        else:
            return None
    return out


def shapes(max_rank, max_extent, min_rank=1):
    for r in range(min_rank, max_rank + 1):
        for d in itertools.product(range(1, max_extent + 1), repeat=r):
            yield list(d)


def classify_pair(a, b):
    """structural class of a broadcast pair, used to pick one representative per class"""
    if a == b:
        return "equal"
    cls = []
    if len(a) != len(b):
        cls.append("rankdiff%d" % abs(len(a) - len(b)))
    r = max(len(a), len(b))
    pa = [1] * (r - len(a)) + a
    pb = [1] * (r - len(b)) + b
    for k in range(r):
        if pa[k] != pb[k]:
            pos = "lead" if k == 0 else ("trail" if k == r - 1 else "mid")
            side = "L" if pa[k] == 1 else "R"
            cls.append(pos + side)
    return "+".join(sorted(set(cls)))


# ------------------------------------------------------------------------------------
import fam_canary  # noqa: E402
import fam_c04  # noqa: E402
import fam_c01  # noqa: E402
import fam_c03  # noqa: E402
import fam_c02  # noqa: E402
import fam_c05  # noqa: E402
import fam_c06  # noqa: E402
import fam_c07  # noqa: E402
import fam_c13  # noqa: E402
import fam_c16  # noqa: E402
import fam_c08  # noqa: E402
import fam_c09  # noqa: E402
import fam_c10  # noqa: E402
import fam_c11  # noqa: E402
import fam_c12  # noqa: E402
import fam_c17  # noqa: E402
import fam_c18  # noqa: E402
import fam_c14  # noqa: E402
import fam_c15  # noqa: E402

FAMILIES = [fam_canary, fam_c04, fam_c01, fam_c03, fam_c02, fam_c05, fam_c06, fam_c07, fam_c13, fam_c16, fam_c08, fam_c09, fam_c10, fam_c11, fam_c12, fam_c17, fam_c18, fam_c14, fam_c15]


def emit():
    for m in FAMILIES:
        m.generate(sys.modules[__name__])

    gen = ["// @generated by gen/skeletons.py - do not edit",
           "#![allow(non_snake_case)]",
           "use crate::cases::*;", "use crate::cases::grad::{leaf, leaf_st, Seed};", "use crate::programs;",
           "use crate::source::{Dom, KaniSource};", "use crate::stubs;", ""]
    reg = ["// @generated by gen/skeletons.py - do not edit",
           "use crate::cases::*;", "use crate::cases::grad::{leaf, leaf_st, Seed};", "use crate::programs;",
           "use crate::source::{Dom, ReplaySource};", "",
           "pub fn run(id: &str, s: &mut ReplaySource) -> bool {",
           "    match id {"]
    for o in OBLIGATIONS:
        gen.append("#[kani::proof]")
        gen.append("#[kani::unwind(%d)]" % o["unwind"])
        for st in o["stubs"]:
            gen.append('#[cfg_attr(not(feature = "f32"), kani::stub(f64::%s, stubs::%s))]' % (st, st))
            gen.append('#[cfg_attr(feature = "f32", kani::stub(f32::%s, stubs::%s))]' % (st, st))
        gen.append("fn %s() {\n    let s = &mut KaniSource;\n    %s;\n}\n" % (o["id"], o["call"]))
        reg.append('        "%s" => {\n            %s;\n        }' % (o["id"], o["call"]))
    reg += ["        _ => return false,", "    }", "    true", "}", ""]

    def write(path, text):
        old = open(path).read() if os.path.exists(path) else None
        if old != text:
            with open(path, "w") as f:
                f.write(text)

    progs = ["// @generated by gen/skeletons.py - do not edit", ""]
    for name, doc, body in PROGRAMS:
        progs.append("/// %s\npub struct %s;\nimpl Program for %s {\n    fn run<A: Alg>(&self, l: &[A]) -> Vec<A> {\n%s\n    }\n}\n"
                     % (doc, name, name, body))
    write(os.path.join(ROOT, "harness/src/gen_programs.rs"), "\n".join(progs))
    write(os.path.join(ROOT, "harness/src/gen/mod.rs"), "\n".join(gen))
    write(os.path.join(ROOT, "harness/src/registry_gen.rs"), "\n".join(reg))
    write(os.path.join(ROOT, "harness/obligations.json"),
          json.dumps(OBLIGATIONS, indent=1, sort_keys=True) + "\n")
    return OBLIGATIONS


STUBS = ("powf", "exp", "ln")


def leaf(d, dom="D4", tracked=True):
    return "leaf(%s, Dom::%s, %s)" % (rs(d), dom, "true" if tracked else "false")


def leaf_st(d, dom="D4"):
    return "leaf_st(%s, Dom::%s)" % (rs(d), dom)


def leaves(ls):
    return "&[" + ", ".join(ls) + "]"

if __name__ == "__main__":
    obs = emit()
    by = {}
    for o in obs:
        by.setdefault(o["property"], [0, 0])
        by[o["property"]][0 if o["tier"] == "quick" else 1] += 1
    for p in sorted(by):
        print("%s quick-core=%d thorough-pool=%d" % (p, by[p][0], by[p][0] + by[p][1]))
