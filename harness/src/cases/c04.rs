//! C04 — element-wise operations follow right-aligned broadcasting, or refuse.
use crate::chk;
use crate::refmodel::{self, Bin};
use crate::source::{Dom, Source};
use crate::util::*;
use corgi::array::Array;

#[derive(Clone, Copy, Debug, PartialEq, Eq)]
pub enum Ew {
    Add,
    Sub,
    Mul,
    Div,
    Axpy,
}

fn apply<S: Source>(s: &mut S, op: Ew, a: &Array, b: &Array) -> (Array, refmodel::T) {
    let (ra, rb) = (konst(a, 0), konst(b, 0));
    match op {
        Ew::Add => (a + b, ra.bin(Bin::Add, &rb).unwrap()),
        Ew::Sub => (a - b, ra.bin(Bin::Sub, &rb).unwrap()),
        Ew::Mul => (a * b, ra.bin(Bin::Mul, &rb).unwrap()),
        Ew::Div => (a / b, ra.bin(Bin::Div, &rb).unwrap()),
        Ew::Axpy => {
            let alpha = s.scale();
            (Array::axpy(alpha, a, b), ra.scale(alpha).bin(Bin::Add, &rb).unwrap())
        }
    }
}

/// compatible pair: result has the pairwise-maximum dimensions and every element is the
/// scalar operation applied to the right-aligned-broadcast operand elements
pub fn values<S: Source>(s: &mut S, op: Ew, da: &[usize], db: &[usize]) {
    let a = mk(s, da, Dom::D4);
    let b = mk(s, db, if op == Ew::Div { Dom::Pos } else { Dom::D4 });
    let (r, e) = apply(s, op, &a, &b);
    chk!(dims_eq(r.dimensions(), &e.d), "[C04:dims] result dimensions are not the pairwise maximum");
    chk!(r.values().len() == e.v.len(), "[C04:len] result length");
    for i in 0..e.v.len() {
        chk!(r.values()[i] == e.v[i], "[C04:value] element differs from the broadcast definition");
    }
    witness();
    forget((a, b, r));
}

/// incompatible pair: the operation must panic on every path
pub fn refusal<S: Source>(s: &mut S, op: Ew, da: &[usize], db: &[usize]) {
    let a = mk(s, da, Dom::D4);
    let b = mk(s, db, if op == Ew::Div { Dom::Pos } else { Dom::D4 });
    let r = match op {
        Ew::Add => &a + &b,
        Ew::Sub => &a - &b,
        Ew::Mul => &a * &b,
        Ew::Div => &a / &b,
        Ew::Axpy => Array::axpy(2.0, &a, &b),
    };
    forget((a, b, r));
    chk!(false, "[C04:refusal-missing] incompatible shapes were accepted");
}
