//! C18 — dropping results releases everything they held.  This is where `Array`'s drop glue
//! is *verified* rather than avoided: every derived result is really dropped, and then each
//! leaf must again be the sole owner of its buffer (`Vec::<Float>::from(leaf)` unwraps the
//! `Rc` and panics otherwise).
use crate::chk;
use crate::programs::Program;
use crate::source::{Dom, Source};
use crate::util::*;
use crate::cases::grad::*;
use corgi::array::Array;
use corgi::numbers::Float;

/// build, optionally pass (once or twice), drop every derived handle, then unwrap every leaf
pub fn release<P: Program, S: Source>(s: &mut S, p: &P, leaves: &[Leaf], passes: usize, keep_gradients: bool) {
    let b = build(s, leaves);
    let nodes = p.run::<Array>(&b.arrays);
    for _ in 0..passes {
        let root = &nodes[nodes.len() - 1];
        let (arg, _) = draw_seed(s, root, Seed::Explicit(Dom::D4));
        root.backward(arg);
    }
    // really drop every result
    drop(nodes);
    let mut grads: Vec<Option<Array>> = Vec::new();
    let mut arrays = b.arrays;
    forget(b.refs);
    #[cfg(any(kani, corgi_verif))]
    for a in arrays.iter() {
        chk!(a.verif_values_owners() == 1, "[c18:owners] a hidden alias of a leaf's buffer survived the drop of every result");
        chk!(a.verif_consumer_count() == 0, "[c18:residue-count] a consumer count survived");
        chk!(!a.verif_has_pending_delta(), "[c18:residue-delta] a pending partial adjoint survived");
    }
    while let Some(a) = arrays.pop() {
        if keep_gradients {
            // a stored gradient is an independent array: it neither keeps the leaf's buffer nor a graph
            let g = a.replace_gradient();
            if let Some(g) = g.as_ref() {
                #[cfg(any(kani, corgi_verif))]
                {
                    chk!(g.verif_children().is_empty(), "[c18:gradient-graph] a stored gradient keeps a graph alive");
                }
            }
            grads.push(g);
        }
        let v: Vec<Float> = a.into();
        forget(v);
    }
    witness();
    forget(grads);
}
