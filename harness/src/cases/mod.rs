pub mod canary;
pub mod c04;
