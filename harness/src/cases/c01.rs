//! C01 (iii) — data-dependent control flow: the README loop
//!     c = c + a*b;  if c[0] > t { c = c*a }
//! as a *non-merging decision tree* (DESIGN.md §2.2-3): the harness branches on the real,
//! symbolic condition and every leaf of the tree runs its own straight-line continuation to
//! the end; the solver decides which values reach which leaf.
use crate::alg::Alg;
use crate::chk;
use crate::refmodel::{self, T};
use crate::source::{Dom, Source};
use crate::util::*;
use crate::cases::grad::*;
use corgi::array::Array;
use corgi::numbers::Float;

struct Ctx<'a> {
    b: &'a Built,
    leaves: &'a [Leaf],
    t: Float,
    seed: Vec<Float>,
}

fn finish(ctx: &Ctx, c: Array, rc: T) {
    check_forward(&c, &rc, false);
    c.backward(Some(Array::from((vec![1], ctx.seed.clone()))));
    check_gradients(ctx.b, ctx.leaves, &rc, &ctx.seed, 1.0, false);
    witness();
    forget(c);
    // end this leaf of the decision tree here: nothing follows, and without this CBMC merges the
    // heap states of all leaves at the function returns (28 GB).  An assumption after the last
    // assertion of a path does not weaken any of them (assumptions are not retroactive).
    #[cfg(kani)]
    kani::assume(false);
}

fn step(ctx: &Ctx, c: Array, rc: T, depth: usize) {
    if depth == 0 {
        finish(ctx, c, rc);
        return;
    }
    let (a, b) = (&ctx.b.arrays[0], &ctx.b.arrays[1]);
    let (ra, rb) = (&ctx.b.refs[0], &ctx.b.refs[1]);
    let p = a * b;
    let c1 = &c + &p;
    let rc1 = rc.add(&ra.mul(rb));
    forget((p, c));
    // the program's own, data-dependent decision
    if c1[0] > ctx.t {
        let c2 = &c1 * a;
        let rc2 = rc1.mul(ra);
        forget(c1);
        step(ctx, c2, rc2, depth - 1);
    } else {
        step(ctx, c1, rc1, depth - 1);
    }
}

/// `iterations` rounds of the loop on shape [1]; a, b, c tracked; threshold symbolic
pub fn control_flow<S: Source>(s: &mut S, iterations: usize) {
    let leaves = [leaf(&[1], Dom::D4, true), leaf(&[1], Dom::D4, true), leaf(&[1], Dom::D4, true)];
    let b = build(s, &leaves);
    let t = 2.0 * s.d4() + 0.5;
    let seed = s.vals(1, Dom::D4);
    let ctx = Ctx {
        b: &b,
        leaves: &leaves,
        t,
        seed,
    };
    let c0 = b.arrays[2].clone();
    let rc0 = b.refs[2].clone();
    step(&ctx, c0, rc0, iterations);
}
