#!/bin/sh
# ./run_all.sh quick|thorough [props...]   - runs the checks one after the other (they share the Kani target dir)
cd "$(dirname "$0")"
tier=${1:-quick}; shift
props=${@:-C16 C13 C08 C12 C07 C04 C05 C06 C09 C10 C11 C17 C18 C15 C02 C01 C03 C14 C19}
mkdir -p target/logs
for p in $props; do
  ./check $p --tier $tier > target/logs/$p.$tier.log 2>&1
  echo "$p exit=$? $(tail -1 target/logs/$p.$tier.log)"
done
