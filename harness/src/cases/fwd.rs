//! Forward-value obligations shared by C05 (matmul), C06 (conv), C07 (reductions, reshape,
//! point-wise maps): run a single-operation program on corgi and on the reference model and
//! compare dimensions and every element; and the expected-refusal form (DESIGN.md §3.6).
use crate::chk;
use crate::programs::Program;
use crate::refmodel::T;
use crate::source::Source;
use crate::util::*;
use crate::cases::grad::{build, check_forward, same, Leaf};
use corgi::array::Array;
use corgi::numbers::Float;

pub fn forward<P: Program, S: Source>(s: &mut S, p: &P, leaves: &[Leaf], inexact: bool) {
    let b = build(s, leaves);
    let nodes = p.run::<Array>(&b.arrays);
    let rnodes = p.run::<T>(&b.refs);
    check_forward(&nodes[nodes.len() - 1], &rnodes[rnodes.len() - 1], inexact);
    witness();
    forget((b.arrays, nodes));
}

/// the operation must panic on every path for these operand shapes
pub fn refusal<P: Program, S: Source>(s: &mut S, p: &P, leaves: &[Leaf]) {
    let b = build(s, leaves);
    let nodes = p.run::<Array>(&b.arrays);
    forget((b.arrays, nodes));
    chk!(false, "[fwd:refusal-missing] operands the definition refuses were accepted");
}

/// softmax: every last-dimension row is non-negative and sums to one
pub fn softmax_rows<S: Source>(s: &mut S, leaves: &[Leaf]) {
    let b = build(s, leaves);
    let r = b.arrays[0].softmax();
    chk!(dims_eq(r.dimensions(), leaves[0].d), "[c07:softmax-dims] softmax changed the dimensions");
    let d = leaves[0].d;
    let row = d[d.len() - 1];
    let rows = r.values().len() / row;
    for i in 0..rows {
        let mut sum: Float = 0.0;
        for j in 0..row {
            let v = r.values()[i * row + j];
            chk!(v >= 0.0, "[c07:softmax-nonneg] softmax produced a negative element");
            sum += v;
        }
        chk!(same(sum, 1.0, true), "[c07:softmax-sum] a softmax row does not sum to one");
    }
    witness();
    forget((b.arrays, r));
}

/// sum_all equals the total of the elements
pub fn sum_all<S: Source>(s: &mut S, leaves: &[Leaf]) {
    let b = build(s, leaves);
    let mut e: Float = 0.0;
    for v in b.refs[0].v.iter() {
        e += *v;
    }
    chk!(b.arrays[0].sum_all() == e, "[c07:sum-all] sum_all differs from the total");
    witness();
    forget(b.arrays);
}
