//! Helpers shared by the harness bodies.
use crate::refmodel::T;
use crate::source::{Dom, Source};
use corgi::array::Array;
use corgi::numbers::Float;

/// A tagged check: `chk!(cond, "[C04:value] …")`.  Under Kani it is a verification
/// condition whose description carries the tag; natively (replay) it panics with it.
#[macro_export]
macro_rules! chk {
    ($c:expr, $m:literal) => {
        assert!($c, $m)
    };
}

/// End-of-harness reachability witness (vacuity guard, DESIGN.md §3.3).
#[inline(always)]
pub fn witness() {
    #[cfg(kani)]
    kani::cover!(true, "[witness]");
}

/// Build a corgi array of shape `d` with values from `dom`.
pub fn mk<S: Source>(s: &mut S, d: &[usize], dom: Dom) -> Array {
    let n = crate::refmodel::numel(d);
    Array::from((d.to_vec(), s.vals(n, dom)))
}

/// The reference twin of a corgi array, as a constant.
pub fn konst(a: &Array, ndir: usize) -> T {
    T::konst(a.dimensions(), a.values().to_vec(), ndir)
}

/// element-wise comparison of dimensions without going through slice `==` (memcmp loop)
pub fn dims_eq(a: &[usize], b: &[usize]) -> bool {
    if a.len() != b.len() {
        return false;
    }
    let mut ok = true;
    for i in 0..a.len() {
        ok &= a[i] == b[i];
    }
    ok
}

pub fn vals_eq(a: &[Float], b: &[Float]) -> bool {
    if a.len() != b.len() {
        return false;
    }
    let mut ok = true;
    for i in 0..a.len() {
        ok &= a[i] == b[i];
    }
    ok
}

/// bit-identical (distinguishes -0.0 / NaN payloads; used for immutability snapshots)
pub fn vals_same_bits(a: &[Float], b: &[Float]) -> bool {
    if a.len() != b.len() {
        return false;
    }
    let mut ok = true;
    for i in 0..a.len() {
        ok &= a[i].to_bits() == b[i].to_bits();
    }
    ok
}

/// Keep a handle alive without running its (recursive) drop glue under CBMC.
#[inline(always)]
pub fn forget<X>(x: X) {
    std::mem::forget(x)
}
