//! C12 — handles are transparent: clones, drops and re-binding never change results.
//! The edited program must still produce the reference result and gradients (which is what
//! the unedited program produces, C01), and gradients deposited through the clones that the
//! program worked on must be visible through the caller's original handles.
use crate::chk;
use crate::refmodel::{self, T};
use crate::source::{Dom, Source};
use crate::util::*;
use crate::cases::grad::*;
use corgi::array::Array;
use corgi::numbers::Float;

#[derive(Clone, Copy, PartialEq, Eq, Debug)]
pub enum Edit {
    /// the unedited program (a*b + a) * b
    None,
    /// every operand replaced by a fresh clone of it
    CloneOperands,
    /// intermediate handles dropped (really) as soon as the program no longer names them
    DropAfterUse,
    /// one variable re-bound to each new result
    Rebind,
    /// the pass is started from a clone of the result, which is then dropped
    RootClone,
    /// the whole program works on clones; gradients are read through the originals
    LeafClones,
    /// the leaves are created untracked; the program works on `raw.clone().tracked()`; the
    /// gradients must be visible through the raw handles
    CloneThenTrack,
    /// a custom operation without a derivative (a metric) is applied to the leaves first
    MetricFirst,
    /// two passes; the caller holds a clone of the gradient fetched after the first one
    HoldGradient,
    /// the leaf is frozen through a clone (`a.clone().untracked()`) after the first of two passes
    FreezeClone,
}

/// a paused parameter (tracked(), then stop_tracking()) used directly or through a clone:
/// identical (no graph, no gradient); and the prediction returned by `Model::forward` is
/// interchangeable with the output the model keeps: a loss built from the returned handle
/// deposits the same parameter gradients
pub fn paused_and_returned<S: Source>(s: &mut S) {
    use corgi::layer::dense::Dense;
    use corgi::layer::Layer;
    use corgi::model::Model;
    use corgi::optimizer::gd::GradientDescent;
    let p = mk(s, &[2], Dom::D4).tracked();
    let k = mk(s, &[2], Dom::D4);
    p.stop_tracking();
    let direct = &p * &k;
    let through_clone = &p.clone() * &k;
    through_clone.backward(None);
    direct.backward(None);
    chk!(p.gradient().is_none(), "[c12:clone-operand] replacing a paused operand by its clone deposited a gradient on it");
    forget((direct, through_clone));
    // --- the handle returned by Model::forward
    let init = crate::cases::c15::initializer(s.vals(2, Dom::D2));
    let mut layer = Dense::new(1, 1, &init, None);
    let gd = GradientDescent::new(0.5);
    let costf: corgi::cost::CostFunction = Box::new(|o: &Array, t: &Array| o * t);
    let x = mk(s, &[1, 1], Dom::D2);
    let t = mk(s, &[1, 1], Dom::D4);
    {
        let mut model = Model::new(vec![&mut layer], &gd, &costf);
        let y = model.forward(x.clone());
        let e = &y * &t;
        e.backward(None);
        forget((model, y, e));
    }
    // d(w*x + b)*t: dw = x*t, db = t
    let ps = layer.parameters();
    let gw = ps[0].gradient();
    let gb = ps[1].gradient();
    chk!(gw.is_some() && gb.is_some(), "[c12:returned-handle] a loss built from the prediction Model::forward returned deposited no gradients");
    if let (Some(gw), Some(gb)) = (gw.as_ref(), gb.as_ref()) {
        chk!(gw.values()[0] == x.values()[0] * t.values()[0], "[grad:value] gradient element differs from the seed-weighted sum of partial derivatives");
        chk!(gb.values()[0] == t.values()[0], "[grad:value] gradient element differs from the seed-weighted sum of partial derivatives");
    }
    witness();
    std::mem::forget(gw);
    std::mem::forget(gb);
    forget((p, k, x, t));
    forget((init, costf));
}

#[allow(dead_code)]
enum _Unused {
    A,
}

fn reference(ra: &T, rb: &T) -> T {
    use crate::alg::Alg;
    ra.mul(rb).add(ra).mul(rb)
}

pub fn edit<S: Source>(s: &mut S, e: Edit) {
    let leaves = [leaf(&[2], Dom::D4, true), leaf(&[2], Dom::D4, true)];
    let mut bl = build(s, &leaves);
    if e == Edit::CloneThenTrack {
        // raw handles: same values, never marked tracked themselves
        let ra = Array::from((vec![2], bl.arrays[0].values().to_vec()));
        let rb = Array::from((vec![2], bl.arrays[1].values().to_vec()));
        let old = std::mem::replace(&mut bl.arrays, vec![ra, rb]);
        forget(old);
    }
    let (a, b) = (&bl.arrays[0], &bl.arrays[1]);
    let rref = reference(&bl.refs[0], &bl.refs[1]);
    let root: Array = match e {
        Edit::None | Edit::HoldGradient | Edit::FreezeClone => {
            let p = a * b;
            let q = &p + a;
            let r = &q * b;
            forget((p, q));
            r
        }
        Edit::CloneOperands => {
            let p = &a.clone() * &b.clone();
            let q = &p.clone() + &a.clone();
            let r = &q.clone() * &b.clone();
            forget((p, q));
            r
        }
        Edit::DropAfterUse => {
            let p = a * b;
            let q = &p + a;
            drop(p);
            let r = &q * b;
            drop(q);
            r
        }
        Edit::Rebind => {
            let mut c = a * b;
            c = &c + a;
            c = &c * b;
            c
        }
        Edit::CloneThenTrack => {
            let (a2, b2) = (a.clone().tracked(), b.clone().tracked());
            let p = &a2 * &b2;
            let q = &p + &a2;
            let r = &q * &b2;
            forget((p, q, a2, b2));
            r
        }
        Edit::MetricFirst => {
            let max: corgi::array::ForwardOp = std::rc::Rc::new(|x: &[&Array]| {
                let n = x[0].values().len();
                let mut v = Vec::with_capacity(n);
                for i in 0..n {
                    let (p, q) = (x[0].values()[i], x[1].values()[i]);
                    v.push(if p > q { p } else { q });
                }
                Array::from((x[0].dimensions().to_vec(), v))
            });
            let metric = Array::op(&[a, b], max, None);
            let p = a * b;
            let q = &p + a;
            let r = &q * b;
            forget((p, q, metric));
            r
        }
        Edit::RootClone | Edit::LeafClones => {
            let (a2, b2) = (a.clone(), b.clone());
            let (x, y) = if e == Edit::LeafClones { (&a2, &b2) } else { (a, b) };
            let p = x * y;
            let q = &p + x;
            let r = &q * y;
            forget((p, q));
            if e == Edit::LeafClones {
                drop((a2, b2));
            } else {
                forget((a2, b2));
            }
            r
        }
    };
    check_forward(&root, &rref, false);
    let (arg, seedv) = draw_seed(s, &root, Seed::Explicit(Dom::D4));
    if e == Edit::RootClone {
        let rc = root.clone();
        rc.backward(arg);
        drop(rc);
        check_gradients(&bl, &leaves, &rref, &seedv, 1.0, false);
    } else if e == Edit::HoldGradient || e == Edit::FreezeClone {
        root.backward(arg);
        check_gradients(&bl, &leaves, &rref, &seedv, 1.0, false);
        // something the caller does between two passes that must not matter
        let held: Option<Array> = if e == Edit::HoldGradient {
            Some(a.gradient().as_ref().unwrap().clone())
        } else {
            let frozen = a.clone().untracked();
            chk!(a.gradient().is_some(), "[c12:clone-visibility] un-tracking a clone removed the original's gradient");
            Some(frozen)
        };
        let (arg2, seed2) = draw_seed(s, &root, Seed::Explicit(Dom::D4));
        root.backward(arg2);
        let mut total = seedv.clone();
        for j in 0..total.len() {
            total[j] += seed2[j];
        }
        check_gradients(&bl, &leaves, &rref, &total, 1.0, false);
        forget(held);
    } else {
        root.backward(arg);
        check_gradients(&bl, &leaves, &rref, &seedv, 1.0, false);
    }
    // visible through any other clone too
    let a3 = a.clone();
    let g = a3.gradient();
    let h = a.gradient();
    chk!(g.is_some() && h.is_some(), "[c12:clone-visibility] gradient not visible through a clone");
    if let (Some(g), Some(h)) = (g.as_ref(), h.as_ref()) {
        chk!(vals_same_bits(g.values(), h.values()), "[c12:clone-visibility] gradient differs between clones of one array");
    }
    witness();
    std::mem::forget(g);
    std::mem::forget(h);
    forget((a3, root, bl.arrays));
}
