//! C11 — one pass evaluates each node's derivative once, with its complete adjoint.
//!
//! The graph is built *only* from `Array::op` with harness closures (a custom add and a
//! custom mul) that count their invocations, take a global sequence number and record the
//! adjoint they were handed.
use crate::alg::Alg;
use crate::chk;
use crate::programs::Program;
use crate::refmodel::{self, T};
use crate::source::{Dom, Source};
use crate::util::*;
use crate::cases::grad::*;
use corgi::array::{Array, BackwardOp, ForwardOp};
use corgi::numbers::Float;
use std::cell::{Cell, RefCell};
use std::rc::Rc;

pub struct Registry {
    pub calls: RefCell<Vec<usize>>,
    pub seq: RefCell<Vec<usize>>,
    pub adjoint: RefCell<Vec<Vec<Float>>>,
    /// operands of node i as registry ids (None = a leaf)
    pub operands: RefCell<Vec<(Option<usize>, Option<usize>)>>,
    pub clock: Cell<usize>,
}

#[derive(Clone)]
pub struct Counted {
    pub a: Array,
    pub reg: Rc<Registry>,
    pub id: Option<usize>,
}

/// element-wise with right-aligned broadcasting of the shorter operand (index modulo its length)
fn ew(x: &[&Array], f: fn(Float, Float) -> Float) -> Array {
    let (n0, n1) = (x[0].values().len(), x[1].values().len());
    let (n, d) = if n0 >= n1 { (n0, x[0].dimensions().to_vec()) } else { (n1, x[1].dimensions().to_vec()) };
    let mut v = Vec::with_capacity(n);
    for i in 0..n {
        v.push(f(x[0].values()[i % n0], x[1].values()[i % n1]));
    }
    Array::from((d, v))
}

impl Counted {
    fn node(&self, o: &Counted, is_mul: bool) -> Counted {
        let reg = Rc::clone(&self.reg);
        let id = reg.calls.borrow().len();
        reg.calls.borrow_mut().push(0);
        reg.seq.borrow_mut().push(0);
        reg.adjoint.borrow_mut().push(Vec::new());
        reg.operands.borrow_mut().push((self.id, o.id));
        let fwd: ForwardOp = if is_mul {
            Rc::new(|x: &[&Array]| ew(x, |a, b| a * b))
        } else {
            Rc::new(|x: &[&Array]| ew(x, |a, b| a + b))
        };
        let r2 = Rc::clone(&reg);
        let bwd: BackwardOp = Rc::new(move |children, tracked, delta| {
            r2.calls.borrow_mut()[id] += 1;
            let t = r2.clock.get() + 1;
            r2.clock.set(t);
            r2.seq.borrow_mut()[id] = t;
            r2.adjoint.borrow_mut()[id] = delta.values().to_vec();
            let mut out = Vec::with_capacity(2);
            for k in 0..2 {
                if tracked[k] {
                    if is_mul {
                        out.push(Some(ew(&[&children[1 - k], delta], |a, b| a * b)));
                    } else {
                        out.push(Some(ew(&[delta, delta], |a, _| a)));
                    }
                } else {
                    out.push(None);
                }
            }
            out
        });
        let a = Array::op(&[&self.a, &o.a], fwd, Some(bwd));
        Counted {
            a,
            reg,
            id: Some(id),
        }
    }
}

impl Alg for Counted {
    fn add(&self, o: &Self) -> Self {
        self.node(o, false)
    }
    fn mul(&self, o: &Self) -> Self {
        self.node(o, true)
    }
    fn sub(&self, _: &Self) -> Self { unimplemented!() }
    fn div(&self, _: &Self) -> Self { unimplemented!() }
    fn neg(&self) -> Self { unimplemented!() }
    fn scale(&self, _: Float) -> Self { unimplemented!() }
    fn lscale(&self, _: Float) -> Self { unimplemented!() }
    fn powf(&self, _: Float) -> Self { unimplemented!() }
    fn ln(&self) -> Self { unimplemented!() }
    fn exp(&self) -> Self { unimplemented!() }
    fn recip(&self) -> Self { unimplemented!() }
    fn sum(&self, _: usize) -> Self { unimplemented!() }
    fn reshape(&self, _: &[usize]) -> Self { unimplemented!() }
    fn matmul(_: &Self, _: bool, _: &Self, _: bool, _: Option<&Self>) -> Self { unimplemented!() }
    fn conv(&self, _: &Self, _: (usize, usize)) -> Self { unimplemented!() }
    fn relu(&self) -> Self { unimplemented!() }
    fn sigmoid(&self) -> Self { unimplemented!() }
    fn softmax(&self) -> Self { unimplemented!() }
    fn axpy(_: Float, _: &Self, _: &Self) -> Self { unimplemented!() }
    fn detach(self) -> Self {
        // a detached handle onto the same node (the stop-gradient pattern)
        Counted {
            a: self.a.clone().untracked(),
            reg: self.reg,
            id: self.id,
        }
    }
    fn keep(self) -> Self { self }
    fn retrack(self) -> Self {
        let x = self.a.untracked();
        x.start_tracking();
        Counted {
            a: x,
            reg: self.reg,
            id: self.id,
        }
    }
}

/// every node's closure ran exactly once, after all of its consumers', with the complete
/// adjoint (= the gradient the node ends up holding); leaf gradients match the oracle
pub fn once<P: Program, S: Source>(s: &mut S, p: &P, leaves: &[Leaf]) {
    let b = build(s, leaves);
    let reg = Rc::new(Registry {
        calls: RefCell::new(Vec::with_capacity(8)),
        seq: RefCell::new(Vec::with_capacity(8)),
        adjoint: RefCell::new(Vec::with_capacity(8)),
        operands: RefCell::new(Vec::with_capacity(8)),
        clock: Cell::new(0),
    });
    let mut ls: Vec<Counted> = Vec::with_capacity(leaves.len());
    for a in b.arrays.iter() {
        ls.push(Counted {
            a: a.clone(),
            reg: Rc::clone(&reg),
            id: None,
        });
    }
    let nodes = p.run::<Counted>(&ls);
    let rnodes = p.run::<T>(&b.refs);
    let root = &nodes[nodes.len() - 1];
    let rref = &rnodes[rnodes.len() - 1];
    check_forward(&root.a, rref, false);
    let (arg, seedv) = draw_seed(s, &root.a, Seed::Explicit(Dom::D4));
    root.a.backward(arg);
    let n = reg.calls.borrow().len();
    chk!(n == nodes.len(), "[c11:registry] every operation node registered");
    for i in 0..n {
        chk!(reg.calls.borrow()[i] == 1, "[c11:once] a node's derivative function was not invoked exactly once");
    }
    // order: a node runs after every consumer of it
    for i in 0..n {
        let (x, y) = reg.operands.borrow()[i];
        if let Some(x) = x {
            chk!(reg.seq.borrow()[i] < reg.seq.borrow()[x], "[c11:order] a node's derivative ran before one of its consumers'");
        }
        if let Some(y) = y {
            chk!(reg.seq.borrow()[i] < reg.seq.borrow()[y], "[c11:order] a node's derivative ran before one of its consumers'");
        }
    }
    // completeness: the adjoint handed to the closure is the node's total adjoint, which the
    // node (every operation result keeps its gradient) stores at the end of the pass
    for (k, nd) in nodes.iter().enumerate() {
        let id = nd.id.unwrap();
        let g = nd.a.gradient();
        // (a node whose handle was re-tracked without the keep flag stores no gradient; for it the
        // single invocation plus the exact leaf gradients below imply the adjoint was complete)
        #[cfg(any(kani, corgi_verif))]
        chk!(g.is_some() || !nd.a.verif_flags().1, "[c11:node-gradient] an operation node holds no gradient after the pass");
        if let Some(g) = g.as_ref() {
            let rec = reg.adjoint.borrow();
            chk!(vals_eq(g.values(), &rec[id]), "[c11:complete] the derivative function received an incomplete adjoint");
            chk!(dims_eq(g.dimensions(), nd.a.dimensions()), "[c11:adjoint-dims] the adjoint handed to a node does not have the node's dimensions");
        }
        let _ = k;
    }
    check_gradients(&b, leaves, rref, &seedv, 1.0, false);
    witness();
    forget((b.arrays, ls, nodes, reg));
}
