//! Deliberately false obligations (DESIGN.md §8): each must come back FAILURE.
use crate::chk;
use crate::source::{Dom, Source};
use crate::util::*;

pub fn value<S: Source>(s: &mut S) {
    let x = s.d4();
    chk!(x != 3.0, "[canary:value] deliberately false");
}

pub fn underflow<S: Source>(s: &mut S) {
    let x = s.pick(4) as usize;
    let y = x - 1;
    chk!(y < 3, "[canary:unreachable-for-x=0]");
}

pub fn corgi_panic<S: Source>(s: &mut S) {
    let a = mk(s, &[3], Dom::D4);
    let i = s.pick(4) as usize;
    let v = a[i];
    chk!(v <= 3.0, "[canary:after-index]");
    forget(a);
}
