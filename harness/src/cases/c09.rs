//! C09 — tracking decides exactly where gradients are computed and stored.
use crate::alg::Alg;
use crate::chk;
use crate::programs::Program;
use crate::source::{Dom, Source};
use crate::util::*;
use crate::cases::grad::{build, Leaf};
use corgi::array::Array;
use corgi::numbers::Float;

/// public-API observation of a handle's tracking flag (restored afterwards)
pub fn is_tracked(a: &Array) -> bool {
    let was = a.stop_tracking();
    if was {
        a.start_tracking();
    }
    was
}

/// result flag == OR of the operand flags, for the flag assignment given by the leaves; with
/// every operand untracked the result keeps no reference to them (each operand is again the
/// sole owner of its buffer while the result is alive) unless the operation is a view
pub fn flag<P: Program, S: Source>(s: &mut S, p: &P, leaves: &[Leaf], is_view: bool) {
    let b = build(s, leaves);
    let nodes = p.run::<Array>(&b.arrays);
    let r = &nodes[nodes.len() - 1];
    let mut any = false;
    for l in leaves {
        any |= l.tracked;
    }
    chk!(is_tracked(r) == any, "[c09:result-flag] result is tracked iff some operand is tracked - violated");
    #[cfg(any(kani, corgi_verif))]
    {
        if !any {
            chk!(r.verif_children().is_empty(), "[c09:untracked-children] a result of untracked operands recorded its operands");
        } else if !is_view {
            chk!(!r.verif_children().is_empty(), "[c09:children] a tracked result recorded no operand");
        }
    }
    // the handles' own flags are untouched by the operation
    for (i, l) in leaves.iter().enumerate() {
        chk!(is_tracked(&b.arrays[i]) == l.tracked, "[c09:operand-flag] an operation changed an operand's tracking flag");
    }
    if !any && !is_view {
        let mut arrays = b.arrays;
        while let Some(a) = arrays.pop() {
            // panics (Rc::try_unwrap) if anything else still owns the buffer
            let v: Vec<Float> = a.into();
            forget(v);
        }
        witness();
        forget(nodes);
    } else {
        witness();
        forget((b.arrays, nodes));
    }
}

/// a pass started on a result of untracked operands stores a gradient on that result only
pub fn untracked_root<S: Source>(s: &mut S) {
    let a = mk(s, &[2], Dom::D4);
    let b = mk(s, &[2], Dom::D4);
    let r = &a * &b;
    let seed = s.vals(2, Dom::D4);
    r.backward(Some(Array::from((vec![2], seed.clone()))));
    chk!(a.gradient().is_none(), "[c09:untracked-operand-gradient] an untracked operand received a gradient");
    chk!(b.gradient().is_none(), "[c09:untracked-operand-gradient] an untracked operand received a gradient");
    let g = r.gradient();
    chk!(g.is_some(), "[c09:root-gradient] the array the pass started on holds no gradient");
    if let Some(g) = g.as_ref() {
        chk!(vals_eq(g.values(), &seed), "[c09:root-gradient-value] the root's gradient is not the seed");
    }
    witness();
    std::mem::forget(g);
    forget((a, b, r));
}

/// the pass leaves every flag as it found it, gradients are plain untracked arrays, and a
/// second identical pass doubles every gradient (so no internal flag was left switched off)
pub fn flags_restored<S: Source>(s: &mut S) {
    let a = mk(s, &[2], Dom::D4).tracked();
    let b = mk(s, &[2], Dom::D4);
    let c = mk(s, &[2], Dom::D4).tracked();
    let p = &a * &b;
    let q = &p + &c;
    let r = &q * &a;
    r.backward(None);
    chk!(is_tracked(&a) && !is_tracked(&b) && is_tracked(&c), "[c09:leaf-flags] the pass changed a leaf's tracking flag");
    chk!(is_tracked(&p) && is_tracked(&q) && is_tracked(&r), "[c09:node-flags] the pass changed a node's tracking flag");
    chk!(b.gradient().is_none(), "[c09:untracked-operand-gradient] an untracked operand received a gradient");
    #[cfg(any(kani, corgi_verif))]
    {
        // the clones recorded inside the graph: same flags as when they were recorded
        let rc = r.verif_children();
        chk!(rc.len() == 2 && rc[0].verif_flags().0 && rc[1].verif_flags().0, "[c09:child-flags] the pass left a recorded operand's flag changed");
        let pc = p.verif_children();
        chk!(pc.len() == 2 && pc[0].verif_flags().0 && !pc[1].verif_flags().0, "[c09:child-flags] the pass left a recorded operand's flag changed");
    }
    let g1: Vec<Float> = a.gradient().as_ref().unwrap().values().to_vec();
    let h1: Vec<Float> = c.gradient().as_ref().unwrap().values().to_vec();
    {
        let g = a.gradient();
        let ga = g.as_ref().unwrap();
        chk!(!is_tracked(ga), "[c09:gradient-tracked] a stored gradient is itself a tracked array");
        #[cfg(any(kani, corgi_verif))]
        chk!(ga.verif_children().is_empty(), "[c09:gradient-graph] a stored gradient carries a graph");
    }
    r.backward(None);
    let g2: Vec<Float> = a.gradient().as_ref().unwrap().values().to_vec();
    let h2: Vec<Float> = c.gradient().as_ref().unwrap().values().to_vec();
    for i in 0..2 {
        chk!(g2[i] == 2.0 * g1[i], "[c09:second-pass] a second identical pass did not double the gradient");
        chk!(h2[i] == 2.0 * h1[i], "[c09:second-pass] a second identical pass did not double the gradient");
    }
    witness();
    forget((a, b, c, p, q, r));
}

/// an untracked operand *before* a tracked one: the pass must restore the tracked one's flag
/// (a second pass over the same graph, also from a clone of the root, still reaches it)
pub fn flags_restored_untracked_first<S: Source>(s: &mut S) {
    let u = mk(s, &[2], Dom::D4);
    let a = mk(s, &[2], Dom::D4).tracked();
    let r = &u * &a;
    r.backward(None);
    let g1: Vec<Float> = a.gradient().as_ref().unwrap().values().to_vec();
    #[cfg(any(kani, corgi_verif))]
    {
        let rc = r.verif_children();
        chk!(rc.len() == 2 && !rc[0].verif_flags().0 && rc[1].verif_flags().0, "[c09:child-flags] the pass left a recorded operand's flag changed");
    }
    chk!(is_tracked(&a) && !is_tracked(&u) && is_tracked(&r), "[c09:leaf-flags] the pass changed a tracking flag");
    r.clone().backward(None);
    let g2: Vec<Float> = a.gradient().as_ref().unwrap().values().to_vec();
    for i in 0..2 {
        chk!(g1[i] == u.values()[i], "[grad:value] gradient element differs from the seed-weighted sum of partial derivatives");
        chk!(g2[i] == 2.0 * g1[i], "[c09:second-pass] a second identical pass did not double the gradient");
    }
    chk!(u.gradient().is_none(), "[c09:untracked-operand-gradient] an untracked operand received a gradient");
    witness();
    forget((u, a, r));
}

/// an array used untracked in one pass and tracked in a later one: the later pass must store
/// its gradient (tracking is decided when the array is used, with no residue of the earlier use)
pub fn tracked_later<S: Source>(s: &mut S) {
    let a = mk(s, &[2], Dom::D4).tracked();
    let b = mk(s, &[2], Dom::D4);
    let r1 = &a * &b;
    r1.backward(None);
    chk!(b.gradient().is_none(), "[c09:untracked-operand-gradient] an untracked operand received a gradient");
    b.start_tracking();
    let r2 = &a * &b;
    r2.backward(None);
    let g = b.gradient();
    chk!(g.is_some(), "[c09:tracked-later] an array tracked when it was used received no gradient");
    if let Some(g) = g.as_ref() {
        chk!(vals_eq(g.values(), a.values()), "[grad:value] gradient element differs from the seed-weighted sum of partial derivatives");
    }
    // the same array used tracked and, through a detached clone, untracked inside one graph
    let w = mk(s, &[2], Dom::D4).tracked();
    let frozen = w.clone().untracked();
    let r3 = &w * &frozen;
    r3.backward(None);
    let gw = w.gradient();
    chk!(gw.is_some(), "[c09:tracked-later] an array tracked when it was used received no gradient");
    if let Some(gw) = gw.as_ref() {
        chk!(vals_eq(gw.values(), w.values()), "[grad:value] gradient element differs from the seed-weighted sum of partial derivatives");
    }
    witness();
    std::mem::forget(g);
    std::mem::forget(gw);
    forget((a, b, r1, r2, w, frozen, r3));
}

/// the gradients a pass stores are plain arrays: untracked, and (hook) carrying no graph
pub fn gradient_plain<P: Program, S: Source>(s: &mut S, p: &P, leaves: &[Leaf]) {
    let b = build(s, leaves);
    let nodes = p.run::<Array>(&b.arrays);
    let root = &nodes[nodes.len() - 1];
    let (arg, _) = crate::cases::grad::draw_seed(s, root, crate::cases::grad::Seed::Explicit(Dom::D4));
    root.backward(arg);
    for (i, l) in leaves.iter().enumerate() {
        if !l.tracked {
            continue;
        }
        let g = b.arrays[i].gradient();
        chk!(g.is_some(), "[grad:missing] a tracked leaf received no gradient");
        if let Some(g) = g.as_ref() {
            chk!(!is_tracked(g), "[c09:gradient-tracked] a stored gradient is itself a tracked array");
            #[cfg(any(kani, corgi_verif))]
            chk!(g.verif_children().is_empty(), "[c09:gradient-graph] a stored gradient carries a graph");
        }
    }
    witness();
    forget((b.arrays, nodes));
}

/// setting the flag on a clone never changes the original (and vice versa)
pub fn clone_flags<S: Source>(s: &mut S) {
    let a = mk(s, &[2], Dom::D4).tracked();
    let c = a.clone();
    c.stop_tracking();
    chk!(is_tracked(&a), "[c09:clone-flag] stop_tracking on a clone changed the original");
    let u = mk(s, &[2], Dom::D4);
    let d = u.clone();
    d.start_tracking();
    chk!(!is_tracked(&u), "[c09:clone-flag] start_tracking on a clone changed the original");
    let e = u.clone().tracked();
    chk!(!is_tracked(&u) && is_tracked(&e), "[c09:clone-flag] tracked() on a clone changed the original");
    // a paused handle (tracked(), then stop_tracking()) clones as paused
    let p = mk(s, &[2], Dom::D4).tracked();
    p.stop_tracking();
    let pc = p.clone();
    chk!(!is_tracked(&pc) && !is_tracked(&p), "[c09:clone-flag] the clone of a paused handle is tracked");
    let rp = &pc * &u;
    chk!(!is_tracked(&rp), "[c09:result-flag] result is tracked iff some operand is tracked - violated");
    forget((p, pc, rp));
    // and the flags decide results as usual
    let r1 = &c * &u;
    let r2 = &a * &u;
    chk!(!is_tracked(&r1) && is_tracked(&r2), "[c09:result-flag] result is tracked iff some operand is tracked - violated");
    witness();
    forget((a, c, u, d, e, r1, r2));
}
