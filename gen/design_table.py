#!/usr/bin/env python3
"""prints the as-built obligation table (markdown) from harness/obligations.json"""
import json, os, collections
ROOT = os.path.dirname(os.path.dirname(os.path.abspath(__file__)))
obs = json.load(open(os.path.join(ROOT, "harness", "obligations.json")))
by = collections.OrderedDict()
for o in obs:
    if o["property"] == "canary":
        continue
    d = by.setdefault(o["property"], collections.OrderedDict())
    f = d.setdefault(o["family"], [0, 0, 0, 0])
    if o["tier"] == "quick":
        f[0] += 1
    if o["tier"] != "experimental":
        f[1] += 1
    else:
        f[3] += 1
    if o["kind"] == "refusal":
        f[2] += 1
print("| property | family (quick core / thorough pool; r = of which expected refusals) | quick | pool |")
print("|---|---|---|---|")
for p in sorted(by):
    fams = []
    q = t = 0
    for f, (a, b, r, x) in by[p].items():
        fams.append("%s %d/%d%s%s" % (f, a, b, (" (r %d)" % r) if r else "", (" +%d experimental" % x) if x else ""))
        q += a
        t += b
    print("| %s | %s | %d | %d |" % (p, "; ".join(fams), q, t))
