"""C01 - reverse-mode gradients are exact on arbitrary computation graphs.

(i)  every DAG program over <= 2 leaves with n binary nodes from {add, mul} on shape [2],
     result = last node, every node and every leaf used
(ii) curated programs (sharing x broadcasting, diamonds, self-products, chains, unary ops,
     sum, reshape, matmul, custom operations)
(iii) data-dependent control flow as a non-merging decision tree (cases/c01.rs)
"""
import itertools

OPS = {"a": "add", "m": "mul"}


def dag_programs(n, ordered):
    """yield (name, nleaves, rust body, description) for every program with n binary nodes"""
    out = []

    def rec(k, nodes):
        # nodes: list of (op, x, y) where operands index into [l0, l1, n0, n1, ...]
        if k == n:
            used = set()
            for (_, x, y) in nodes:
                used.add(x)
                used.add(y)
            # every non-root node used
            if any((2 + i) not in used for i in range(n - 1)):
                return
            leaves_used = sorted(u for u in used if u < 2)
            if leaves_used == [1]:
                return  # isomorphic to the program over l0 alone
            out.append(list(nodes))
            return
        avail = list(range(2 + k))
        pairs = itertools.product(avail, repeat=2) if ordered else itertools.combinations_with_replacement(avail, 2)
        for (x, y) in pairs:
            if k > 0 and (2 + k - 1) not in (x, y) and k == n - 1:
                # root must consume the previous node unless it is used elsewhere; the 'used' filter
                # above decides - no pruning here
                pass
            for op in "am":
                rec(k + 1, nodes + [(op, x, y)])

    rec(0, [])
    res = []
    for nodes in out:
        nl = 2 if any(1 in (x, y) for (_, x, y) in nodes) else 1

        def nm(i):
            return ("l%d" % i) if i < 2 else ("n%d" % (i - 2))

        def rsn(i):
            return ("l[%d]" % i) if i < 2 else ("n%d" % (i - 2))

        name = "Dag_" + "_".join("%s%s%s" % (op, nm(x), nm(y)) for (op, x, y) in nodes)
        body = []
        for i, (op, x, y) in enumerate(nodes):
            body.append("        let n%d = %s.%s(&%s);" % (i, rsn(x), OPS[op], rsn(y)))
        body.append("        vec![%s]" % ", ".join("n%d" % i for i in range(len(nodes))))
        desc = "; ".join("n%d = %s %s %s" % (i, nm(x), {"a": "+", "m": "*"}[op], nm(y)) for i, (op, x, y) in enumerate(nodes))
        res.append((name, nl, "\n".join(body), desc))
    return res


def generate(G):
    def grad_ob(id, prog_expr, ls, seed, tier, skeleton, unwind, stubs=(), inexact=False, heavy=False, prop="C01",
                family="graph", domains=None):
        G.ob(id, prop, family,
             "grad::grad(s, &%s, %s, %s, %s)" % (prog_expr, G.leaves(ls), seed, "true" if inexact else "false"),
             unwind=unwind, tier=tier, stubs=stubs, skeleton=skeleton, heavy=heavy,
             domains=domains or "leaf values and seed elements: D4 unless stated in the skeleton")

    # ---- (i) enumerated DAG programs on shape [2]
    # quick core: all 1-node programs and a structurally spread dozen of the 2-node ones; the rest
    # of the unordered 2-node programs, the ordered ones and the 3-node ones are the thorough pool
    quick_dags = {"Dag_al0l1", "Dag_ml0l1", "Dag_ml0l0", "Dag_al0l0",
                  "Dag_ml0l1_an0l0", "Dag_ml0l1_mn0l1", "Dag_al0l1_mn0n0", "Dag_ml0l1_an0n0", "Dag_ml0l0_mn0n0",
                  "Dag_al0l0_ml1n0", "Dag_ml1l1_al0n0", "Dag_al0l1_ml0n0"}
    for n, ordered, tier in [(1, False, "quick"), (2, False, "quick"), (1, True, "thorough"), (2, True, "thorough"),
                             (3, False, "thorough")]:
        for (name, nl, body, desc) in dag_programs(n, ordered):
            G.program(name, desc, body)
            id = "c01_" + name.lower()
            if id in G._ids:
                continue
            ls = [G.leaf([2])] * nl
            grad_ob(id, "programs::" + name, ls, "Seed::Explicit(Dom::D4)", tier if name in quick_dags else "thorough",
                    {"program": desc, "leaves": [[2]] * nl, "tracked": [True] * nl, "seed": "explicit D4"}, unwind=6)
    # tracked/untracked assignments of the leaves on a few two-leaf programs
    for name, desc in [("Dag_ml0l1_an0l0", "n0 = l0*l1; n1 = n0+l0"), ("Dag_al0l1_mn0n0", "n0 = l0+l1; n1 = n0*n0")]:
        for t0, t1 in [(True, False), (False, True)]:
            id = "c01_%s_t%d%d" % (name.lower(), t0, t1)
            grad_ob(id, "programs::" + name, [G.leaf([2], tracked=t0), G.leaf([2], tracked=t1)],
                    "Seed::Explicit(Dom::D4)", "quick" if t0 else "thorough",
                    {"program": desc, "leaves": [[2], [2]], "tracked": [t0, t1], "seed": "explicit D4"}, unwind=6)

    # ---- (iii) data-dependent control flow (non-merging decision tree)
    for it, tier in ((1, "quick"), (2, "thorough"), (3, "experimental")):
        G.ob("c01_control_flow_%d" % it, "C01", "control_flow", "c01::control_flow(s, %d)" % it, unwind=7, tier=tier,
             heavy=("huge" if it >= 2 else True),
             skeleton={"program": "README loop: c = c + a*b; if c[0] > t { c = c*a }", "iterations": it, "leaves_of_the_decision_tree": 2 ** it,
                       "shape": [1]}, domains="a, b, c, seed: D4; threshold t in {0.5, 2.5, 4.5, 6.5}")

    # ---- (ii) curated programs
    L = G.leaf
    cur = [
        # id, program, leaves, seed, tier, unwind, stubs, inexact
        ("muladdshare", "MulAddShare", [L([2]), L([2])], "Explicit(Dom::D4)", "quick", 6, (), False),
        ("diamond", "Diamond", [L([2]), L([2])], "Explicit(Dom::D4)", "quick", 6, (), False),
        ("diamond_omitted", "Diamond", [L([2]), L([2])], "Omitted", "thorough", 6, (), False),
        ("square", "Square", [L([3])], "Explicit(Dom::D4)", "quick", 6, (), False),
        ("squarechain3", "SquareChain3", [L([1], "D2")], "Explicit(Dom::D4)", "quick", 6, (), False),
        ("chain5", "Chain5", [L([2]), L([2])], "Explicit(Dom::D2)", "thorough", 6, (), False),
        ("fan3", "Fan3", [L([2]), L([2])], "Explicit(Dom::D4)", "thorough", 6, (), False),
        ("bcastshare_2x3_3", "BcastShare", [L([2, 3]), L([3])], "Explicit(Dom::D2)", "thorough", 12, (), False),
        ("bcastshare_2x2_1x2", "BcastShare", [L([2, 2]), L([1, 2])], "Explicit(Dom::D4)", "thorough", 8, (), False),
        ("bcastshare_2x2_2x1", "BcastShare", [L([2, 2]), L([2, 1])], "Explicit(Dom::D4)", "thorough", 8, (), False),
        ("bcasttwice_2_2x2", "BcastTwice", [L([2]), L([2, 2]), L([2, 2], tracked=False)], "Explicit(Dom::D4)", "quick", 9, (), False),
        ("unarymix", "UnaryMix", [L([2]), L([2])], "Explicit(Dom::D4)", "quick", 6, ("powf",), False),
        ("divrecip", "DivRecip", [L([2]), L([2], "Pos")], "Explicit(Dom::D4)", "thorough", 6, ("powf",), False),
        ("divsum", "DivSum", [L([1, 2], "Pos")], "Explicit(Dom::D4)", "quick", 6, ("powf",), True),
        ("sumbcast", "SumBcast", [L([2, 2, 2], "D2")], "Explicit(Dom::D2)", "thorough", 14, (), False),
        ("reshapemix", "ReshapeMix", [L([2, 3], "D2"), L([3, 2], "D2")], "Explicit(Dom::D2)", "quick", 16, (), False),
        ("matmulshare", "MatmulShare", [L([2, 2], "D2"), L([2, 2], "D2"), L([2], "D2")], "Explicit(Dom::D2)", "thorough", 14, (), False),
        ("relumix", "ReluMix", [L([2], "Sgn"), L([2], "Sgn")], "Explicit(Dom::D4)", "quick", 6, (), False),
        ("relushare_1", "ReluShare", [L([1], "Sgn")], "Explicit(Dom::D4)", "quick", 6, (), False),
        ("relushare_dead", "ReluShare", [L([2], "Neg1")], "Explicit(Dom::D4)", "quick", 6, (), False),
        ("lnexp", "LnExp", [L([2], "Pos"), L([2]), L([2])], "Explicit(Dom::D4)", "quick", 10, ("ln", "exp", "powf"), True),
        ("keepmid", "KeepMid", [L([2]), L([2])], "Explicit(Dom::D4)", "thorough", 6, (), False),
        ("detachmid", "DetachMid", [L([2]), L([2])], "Explicit(Dom::D4)", "quick", 6, (), False),
        ("convsquare_b2", "ConvSquare", [L([2, 1, 2, 2], "D2"), L([1, 1, 2, 1], "D2")], "Explicit(Dom::D2)", "thorough", 20, (), False),
        ("muladdshare_start_tracking", "MulAddShare", [G.leaf_st([2]), L([2])], "Explicit(Dom::D4)", "thorough", 6, (), False),
        ("muladdshare_2x1x2_2x2x2", "MulAddShare", [L([2, 1, 2], "D2"), L([2, 2, 2], "D2", tracked=False)], "Explicit(Dom::D2)", "quick", 14, (), False),
        ("convsquare_1x1x3", "ConvSquare", [L([1, 1, 3]), L([1, 1, 1, 2])], "Explicit(Dom::D4)", "thorough", 10, (), False),
        ("diamond_2x2", "Diamond", [L([2, 2], "D2"), L([2, 2], "D2")], "Explicit(Dom::D4)", "thorough", 8, (), False),
        ("fan3_3", "Fan3", [L([3]), L([3])], "Explicit(Dom::D4)", "thorough", 6, (), False),
        ("bcastshare_2x2x2_2x2", "BcastShare", [L([2, 2, 2], "D2"), L([2, 2], "D2")], "Explicit(Dom::D2)", "thorough", 12, (), False),
        ("bcastthrice_1x2", "BcastThrice", [L([1, 2]), L([2, 2]), L([2, 2], tracked=False), L([2, 2])], "Explicit(Dom::D2)", "thorough", 8, (), False),
        ("chain5_omitted", "Chain5", [L([2]), L([2])], "Omitted", "thorough", 6, (), False),
    ]
    for id, prog, ls, seed, tier, unwind, stubs, inexact in cur:
        grad_ob("c01_cur_" + id, "programs::" + prog, ls, "Seed::" + seed, tier,
                {"program": prog, "leaves": ls, "seed": seed, "inexact_tolerance": inexact}, unwind, stubs, inexact,
                family="curated", heavy=any(x in id for x in ("bcast", "reshapemix", "matmulshare", "convsquare", "2x2", "chain5", "fan3")))
