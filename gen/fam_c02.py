"""C02 - each operation's derivative equals its mathematical definition (J^T . seed).

Single-operation programs through cases/grad.rs with a non-uniform symbolic seed per output
element; per operation the parameterisations that select different code paths."""


def generate(G):
    L = G.leaf

    def ob(id, prog, ls, tier, unwind, stubs=(), inexact=False, seed="Explicit(Dom::D4)", heavy=False, skel=None):
        sk = {"program": prog, "leaves": ls, "seed": seed, "tolerance": inexact}
        sk.update(skel or {})
        G.ob("c02_" + id, "C02", prog.split("(")[0].split(" ")[0].split("{")[0].strip().lower(),
             "grad::grad(s, &programs::%s, %s, Seed::%s, %s)" % (prog, G.leaves(ls), seed, "true" if inexact else "false"),
             unwind=unwind, tier=tier, stubs=stubs, skeleton=sk, heavy=heavy,
             domains="operands per leaf spec; seed elements %s" % seed)

    # ---- element-wise binary ops x broadcast class
    pairs_q = {"Add": ([2, 2], [2]), "Sub": ([2], [1, 2]), "Mul": ([2, 2], [1, 2]), "Div": ([2], [2, 1])}
    # a lower-rank operand that also has a unit dimension of its own
    ob("mul_2x2x2_2x1", "Mul", [L([2, 2, 2], "D2", tracked=False), L([2, 1], "D2")], "quick", 14, heavy=True)
    for op, (a, b) in pairs_q.items():
        db = "Pos" if op == "Div" else "D4"
        ob("%s_%s_%s" % (op.lower(), G.sname(a), G.sname(b)), op, [L(a), L(b, db)], "quick", 12,
           stubs=("powf",) if op == "Div" else ())
    pairs_t = [([2], [2]), ([2, 2], [2, 2]), ([2, 2], [2]), ([2], [2, 2]), ([2, 2], [1, 2]), ([2, 2], [2, 1]), ([2, 1], [1, 2]),
               ([2, 2], [1]), ([2, 1, 2], [2, 2]), ([1, 2, 2], [2, 1, 2]), ([2, 2, 2], [2, 2])]
    for op in ["Add", "Sub", "Mul", "Div"]:
        for a, b in pairs_t:
            id = "%s_%s_%s" % (op.lower(), G.sname(a), G.sname(b))
            if "c02_" + id in G._ids:
                continue
            db = "Pos" if op == "Div" else ("D2" if G.numel(G.bcast(a, b)) >= 8 else "D4")
            da = "D2" if G.numel(G.bcast(a, b)) >= 8 else "D4"
            ob(id, op, [L(a, da), L(b, db)], "thorough", G.numel(G.bcast(a, b)) + G.numel(a) + G.numel(b) + 3,
               stubs=("powf",) if op == "Div" else ())
    # tracked subsets
    for op in ["Add", "Mul", "Div"]:
        for ta, tb in [(True, False), (False, True)]:
            db = "Pos" if op == "Div" else "D4"
            ob("%s_2x2_2_t%d%d" % (op.lower(), ta, tb), op, [L([2, 2], tracked=ta), L([2], db, tracked=tb)],
               "quick" if (op, ta) == ("Mul", False) else "thorough", 10, stubs=("powf",) if op == "Div" else ())
    ob("axpy_2x2_2", "Axpy(2.0)", [L([2, 2]), L([2])], "thorough", 10)

    # ---- unary
    ob("neg_3", "Neg", [L([3])], "quick", 6)
    ob("scale_3", "Scale(3.0)", [L([3])], "quick", 6)
    ob("lscale_half_2x2", "LScale(0.5)", [L([2, 2])], "thorough", 8)
    ob("scale_neg2_2", "Scale(-2.0)", [L([2])], "thorough", 6)
    ob("scale_zero_2", "Scale(0.0)", [L([2])], "thorough", 6)
    for e, dom, tier in [("3.0", "D4", "quick"), ("0.5", "Base", "quick"), ("-1.0", "Pos", "quick"), ("2.0", "D4", "thorough"),
                         ("1.0", "D4", "thorough"), ("0.0", "Pos", "thorough"), ("-2.0", "Pos", "thorough")]:
        ob("powf_%s_2" % e.replace(".", "p").replace("-", "m"), "Powf(%s)" % e, [L([2], dom)], tier, 6, stubs=("powf",),
           skel={"exponent": e})
    ob("powf_3p0_2x2", "Powf(3.0)", [L([2, 2])], "thorough", 8, stubs=("powf",), skel={"exponent": "3.0"})
    ob("ln_2", "Ln", [L([2], "Pos")], "quick", 6, stubs=("ln",))
    ob("exp_2", "Exp", [L([2])], "quick", 6, stubs=("exp",), inexact=True)
    ob("recip_2", "Recip", [L([2], "Pos")], "quick", 6, stubs=("powf",))
    ob("ln_2x2", "Ln", [L([2, 2], "Pos")], "thorough", 8, stubs=("ln",))
    ob("exp_1x2", "Exp", [L([1, 2])], "thorough", 6, stubs=("exp",), inexact=True)
    ob("recip_2x1", "Recip", [L([2, 1], "Pos")], "thorough", 6, stubs=("powf",))
    ob("relu_3", "Relu", [L([3], "Sgn")], "quick", 6)
    ob("relu_2x2", "Relu", [L([2, 2], "Sgn")], "thorough", 8)
    ob("relu_dead_2", "Relu", [L([2], "Neg1")], "quick", 6, skel={"input": "concrete -1 (all units inactive): the delta delivered is zeros, not missing"})
    ob("sigmoid_2", "Sigmoid", [L([2], "D2")], "quick", 6, stubs=("exp",), inexact=True)
    ob("sigmoid_1x2", "Sigmoid", [L([1, 2])], "thorough", 6, stubs=("exp",), inexact=True)
    ob("softmax_1x2", "Softmax", [L([1, 2], "D2")], "thorough", 8, stubs=("exp", "powf"), inexact=True)
    ob("softmax_2x2", "Softmax", [L([2, 2], "D2")], "thorough", 10, stubs=("exp", "powf"), inexact=True)
    ob("softmax_2", "Softmax", [L([2], "D2")], "quick", 8, stubs=("exp", "powf"), inexact=True)

    # ---- sum(k), reshape
    for d, k, tier in [([2, 2], 1, "quick"), ([2, 2, 2], 2, "quick"), ([2, 1, 2], 3, "quick"), ([2, 2], 0, "thorough"),
                       ([2, 2], 2, "thorough"), ([2, 2, 2], 1, "thorough"), ([2, 2, 2], 3, "thorough"), ([3], 1, "thorough"),
                       ([2, 3], 1, "thorough"), ([2, 1, 2, 2], 2, "thorough"), ([2, 2, 1, 2], 3, "thorough"), ([2, 2, 2, 2], 2, "thorough")]:
        n = G.numel(d)
        ob("sum%d_%s" % (k, G.sname(d)), "Sum(%d)" % k, [L(d, "D2" if n >= 8 else "D4")], tier, 2 * n + 3,
           seed="Explicit(Dom::D4)", heavy=(n >= 16), skel={"k": k})
    ob("reshape_2x3_3x2", "Reshape(&[3, 2])", [L([2, 3])], "quick", 15)
    ob("reshape_2x2_4", "Reshape(&[4])", [L([2, 2])], "thorough", 10)
    ob("reshape_4_1x2x2", "Reshape(&[1, 2, 2])", [L([4])], "thorough", 10)

    # ---- matmul: transposes x additive term x leading dims
    def mm_dims(m, k, n, at, bt):
        return ([k, m] if at else [m, k]), ([n, k] if bt else [k, n])

    def mm(id, m, k, n, at, bt, c, tier, lead_a=(), lead_b=(), tracked=(True, True, True), dom="D2"):
        a, b = mm_dims(m, k, n, at, bt)
        a = list(lead_a) + a
        b = list(lead_b) + b
        ls = [L(a, dom, tracked=tracked[0]), L(b, dom, tracked=tracked[1])]
        if c is not None:
            ls.append(L(c, dom, tracked=tracked[2]))
        lead = G.bcast(list(lead_a) or [1], list(lead_b) or [1])
        out = G.numel(lead) * m * n
        tot = G.numel(a) + G.numel(b) + (G.numel(c) if c else 0)
        ob("matmul_" + id, "Matmul { at: %s, bt: %s, c: %s }" % (str(at).lower(), str(bt).lower(), str(c is not None).lower()),
           ls, tier, max(out, tot) + tot + 3, heavy=True,
           skel={"m": m, "k": k, "n": n, "at": at, "bt": bt, "c": c, "lead_a": list(lead_a), "lead_b": list(lead_b), "tracked": list(tracked)})

    mm("2x2x2_nn", 2, 2, 2, False, False, None, "quick")
    mm("2x2x2_tn", 2, 2, 2, True, False, None, "thorough")
    mm("2x1x2_nt_c2", 2, 1, 2, False, True, [2], "quick")
    mm("1x2x2_tt", 1, 2, 2, True, True, None, "quick")
    mm("2x2x1_nt_c1x1", 2, 2, 1, False, True, [1, 1], "thorough")
    mm("2x2x2_nt_c2x2", 2, 2, 2, False, True, [2, 2], "thorough")
    mm("2x2x2_nn_c1", 2, 2, 2, False, False, [1], "thorough")
    mm("1x2x2_nn_lead2_both", 1, 2, 2, False, False, None, "thorough", lead_a=[2], lead_b=[2])
    mm("1x2x2_nt_lead2_left_c2", 1, 2, 2, False, True, [2], "thorough", lead_a=[2])
    mm("1x1x2_nt_lead2_left_c2", 1, 1, 2, False, True, [2], "quick", lead_a=[2])
    mm("1x2x1_nn_lead2_right", 1, 2, 1, False, False, None, "thorough", lead_b=[2])
    mm("1x2x1_nn_lead1_2", 1, 2, 1, False, False, None, "thorough", lead_a=[1], lead_b=[2])
    mm("2x2x2_nt_c_only", 2, 2, 2, False, True, [2], "thorough", tracked=(False, False, True))
    mm("1x2x1_nn_l2x2_l2", 1, 2, 1, False, False, None, "thorough", lead_a=[2, 2], lead_b=[2])
    mm("1x2x1_nt_l2x2_l2", 1, 2, 1, False, True, None, "thorough", lead_a=[2, 2], lead_b=[2])
    mm("2x1x2_nn_lead2_c2x1x2_c_only", 2, 1, 2, False, False, [2, 1, 2], "thorough", lead_a=[2], lead_b=[2], tracked=(False, False, True))
    mm("2x2x2_nt_b_only", 2, 2, 2, False, True, [2], "thorough", tracked=(False, True, False))
    for at in (False, True):
        for bt in (False, True):
            id = "2x1x2_%s%s" % ("t" if at else "n", "t" if bt else "n")
            mm(id + "_all", 2, 1, 2, at, bt, [1, 2], "thorough")
    # rank-1 forms
    ob("matmul_vec_2_2x2", "Matmul { at: false, bt: false, c: false }", [L([2], "D2"), L([2, 2], "D2")], "quick", 12,
       skel={"form": "[k] x [k,n]"})
    ob("matmul_dot_3_3", "Matmul { at: false, bt: false, c: false }", [L([3]), L([3])], "thorough", 10, skel={"form": "dot"})
    ob("matmul_2x2_vec2_bt", "Matmul { at: false, bt: true, c: false }", [L([2, 2], "D2"), L([2], "D2")], "thorough", 12,
       skel={"form": "[m,k] x [k]^T"})

    # ---- conv: stride x overlap x uneven fit x depth/filters/batch
    def conv(id, img, fil, stride, tier, tracked=(True, True), dom="D2"):
        ls = [L(img, dom, tracked=tracked[0]), L(fil, dom, tracked=tracked[1])]
        orows = (img[-2] - fil[-2]) // stride[0] + 1
        ocols = (img[-1] - fil[-1]) // stride[1] + 1
        batch = G.numel(img[:-3]) if len(img) > 3 else 1
        unrolled = batch * orows * ocols * fil[1] * fil[2] * fil[3]
        tot = G.numel(img) * tracked[0] + G.numel(fil) * tracked[1]
        ob("conv_" + id, "Conv((%d, %d))" % stride, ls, tier, max(unrolled, G.numel(img), G.numel(fil)) + tot + 3, heavy=True,
           skel={"image": img, "filters": fil, "stride": list(stride), "overlap": stride[0] < fil[2] or stride[1] < fil[3],
                 "uneven": (img[-2] - fil[-2]) % stride[0] != 0 or (img[-1] - fil[-1]) % stride[1] != 0})

    conv("1x2x3_1x1x2x2_s11", [1, 2, 3], [1, 1, 2, 2], (1, 1), "quick")            # overlapping columns
    conv("1x3x3_1x1x2x2_s11_img", [1, 3, 3], [1, 1, 2, 2], (1, 1), "thorough", tracked=(True, False))
    conv("1x1x3_1x1x1x2_s11", [1, 1, 3], [1, 1, 1, 2], (1, 1), "quick", dom="D4")   # overlapping along columns only
    # column stride 2 that does not tile the width, two rows of windows, image gradient only
    conv("1x3x4_1x1x2x1_s12_img", [1, 3, 4], [1, 1, 2, 1], (1, 2), "quick", tracked=(True, False))
    conv("1x3x1_1x1x2x1_s11", [1, 3, 1], [1, 1, 2, 1], (1, 1), "thorough", dom="D4")   # overlapping along rows only
    conv("1x3x4_1x1x2x2_s12", [1, 3, 4], [1, 1, 2, 2], (1, 2), "thorough")         # rows overlap, columns do not
    conv("1x2x4_1x1x2x2_s12", [1, 2, 4], [1, 1, 2, 2], (1, 2), "thorough")         # non-overlapping
    conv("1x2x4_1x1x1x2_s13", [1, 2, 4], [1, 1, 1, 2], (1, 3), "thorough")         # uneven fit
    conv("2x2x2_2x2x1x2_s11", [2, 2, 2], [2, 2, 1, 2], (1, 1), "thorough")         # depth 2, 2 filters
    conv("b2_1x2x2_1x1x2x1_s11", [2, 1, 2, 2], [1, 1, 2, 1], (1, 1), "quick")      # batch 2, overlapping
    conv("b1_1x2x3_1x1x1x2_s11", [1, 1, 2, 3], [1, 1, 1, 2], (1, 1), "thorough")
    conv("b2_1x2x3_2x1x2x2_s11", [2, 1, 2, 3], [2, 1, 2, 2], (1, 1), "thorough")   # batch 2 x 2 filters
    conv("1x3x3_1x1x2x2_s22", [1, 3, 3], [1, 1, 2, 2], (2, 2), "thorough")         # uneven both
    conv("1x3x2_1x1x2x2_s21", [1, 3, 2], [1, 1, 2, 2], (2, 1), "thorough")
