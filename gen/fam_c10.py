"""C10 - gradients accumulate additively across passes; a finished pass leaves no residue."""


def generate(G):
    L = G.leaf
    two = [L([2]), L([2])]

    def hist(id, prog, leaves, steps, tier, what, unwind=8, probe=True, heavy=False):
        rs = ", ".join("c10::Step::%s" % st for st in steps)
        G.ob("c10_" + id, "C10", "history",
             "c10::history(s, &programs::%s, %s, &[%s], %s)" % (prog, G.leaves(leaves), rs, "true" if probe else "false"),
             unwind=unwind, tier=tier, heavy=heavy,
             skeleton={"program": prog, "steps": steps, "what": what, "hook_clean_state_checked": probe},
             domains="values D4, an independent D4 seed per pass")

    # MulAddShare: nodes [p = a*b, r = p + a]; Diamond: [c = a*b, d = c + a, e = a*d]
    hist("same_root_twice", "MulAddShare", two, ["Back(1)", "Back(1)"], "quick", "the same result differentiated twice")
    hist("same_root_thrice", "MulAddShare", two, ["Back(1)", "Back(1)", "Back(1)"], "thorough", "the same result three times")
    hist("interior_then_result", "MulAddShare", two, ["Back(0)", "Back(1)"], "quick", "an interior node, later the result containing it")
    hist("result_then_interior", "MulAddShare", two, ["Back(1)", "Back(0)"], "quick", "the result, later an interior node of it")
    hist("replace_between", "MulAddShare", two, ["Back(1)", "Replace(0)", "Back(1)"], "quick", "replace_gradient() on one leaf between two passes")
    hist("clearmut_between", "MulAddShare", two, ["Back(1)", "ClearMut(1)", "Back(0)"], "quick", "*gradient_mut() = None between passes")
    hist("drop_between", "Diamond", two, ["Back(2)", "DropNode(0)", "DropNode(1)", "Back(2)"], "thorough",
         "interior handles dropped between two passes on the result")
    hist("shared_subgraph", "TwoRoots", two, ["Back(1)", "Back(2)"], "quick", "r1 = p + a then r2 = p * b sharing p = a*b")
    hist("shared_subgraph_rev", "TwoRoots", two, ["Back(2)", "Back(1)", "Back(0)"], "thorough", "r2, r1, then the shared interior p")
    hist("diamond_twice", "Diamond", two, ["Back(2)", "Back(2)"], "thorough", "diamond differentiated twice")
    hist("diamond_interiors", "Diamond", two, ["Back(0)", "Back(1)", "Back(2)"], "thorough", "every node of the diamond in topological order")
    hist("clear_all_then_pass", "MulAddShare", two, ["Back(1)", "Replace(0)", "ClearMut(1)", "Back(1)"], "thorough",
         "a pass after everything was cleared behaves like a first pass")
    hist("bcast_twice", "Mul", [L([2]), L([2, 2])], ["Back(0)", "Back(0)"], "thorough", "broadcast operand, two passes", unwind=10)
    hist("untracked_leaf", "MulAddShare", [L([2]), L([2], tracked=False)], ["Back(1)", "Back(0)"], "quick",
         "one leaf untracked")
    hist("start_tracking_twice", "MulAddShare", [G.leaf_st([2]), L([2])], ["Back(1)", "Back(1)"], "quick",
         "a leaf made trackable by start_tracking() (no keep flag), the same result twice")
    hist("start_tracking_two_results", "TwoRoots", [G.leaf_st([2]), G.leaf_st([2])], ["Back(1)", "Back(2)"], "thorough",
         "start_tracking() leaves shared by two results")
    hist("add_twice", "Add", [L([2]), L([2])], ["Back(0)", "Back(0)"], "quick", "a + b twice: both gradients sit on one shared delta buffer after the first pass")
    for which, name, stubs, tier in ((0, "sigmoid", ("exp",), "quick"), (1, "relu", (), "thorough"), (2, "exp", ("exp",), "thorough"), (3, "powf", ("powf",), "thorough")):
        G.ob("c10_pointwise_twice_" + name, "C10", "pointwise_twice", "c10::pointwise_twice(s, %d)" % which, unwind=7, tier=tier, stubs=stubs,
             skeleton={"operation": name, "what": "two passes through the same node with the gradient cleared in between: same derivative both times"},
             domains="values D2 (relu: Dsgn), seeds D4; tolerance 1e-9")
    G.ob("c10_reshape_alias", "C10", "reshape_alias", "c10::reshape_alias(s)", unwind=7, tier="quick",
         skeleton={"what": "y = x.reshape(same dims); r1 = y*w; r2 = x*v; both passes; y's gradient is r1's alone; clearing y leaves x"},
         domains="values D4")
    hist("zero_seed_then_pass", "MulAddShare", [L([2], "Two"), L([2], "Two")], ["BackZero(0)", "BackNone(1)"], "quick",
         "fully concrete history: an all-zero seed on the interior node, then the result with the default seed (a seeded data-dependent branch is taken concretely)")
    hist("square_twice", "Square", [L([2])], ["Back(0)", "Back(0)"], "quick", "self-product differentiated twice")
    hist("no_probe_public_api", "MulAddShare", two, ["Back(1)", "Back(0)"], "quick", "public API only (no hook probes)", probe=False)
    hist("drop_between_small", "MulAddShare", two, ["Back(1)", "DropNode(0)", "Back(1)"], "quick", "an interior handle dropped between two passes")
