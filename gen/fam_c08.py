"""C08 - arrays are immutable: histories over a pool of live handles."""


def generate(G):
    for name, unwind, tier, what in [
        ("forward_ops", 8, "quick", "mul(broadcast), add, scale, sum, matmul over a, b, c; every earlier handle re-checked after each step"),
        ("backward_twice", 6, "quick", "pass with explicit seed; gradient fetched; second pass (accumulation); replace_gradient; third pass"),
        ("reshape_view", 8, "quick", "reshape view sharing storage; ops on view and original; backward through the view; sum(0) clone"),
        ("optimizer_update", 6, "quick", "forward, backward, gradient fetched, GradientDescent::update: older handles intact, new value = old - lr*g"),
        ("drop_others", 6, "quick", "clone dropped, derived results dropped (real drops) before and after a pass"),
        ("matmul_addend", 8, "quick", "matmul with an additive term of exactly the product's shape (single owner), and the dot-product form with a [1] term: the term is unchanged"),
        ("activation_alias", 8, "quick", "activation::relu() applied to a clone of an array that other handles (a view, a clone) still share; untracked and tracked"),
        ("optimizer_update_frozen", 6, "quick", "update over [frozen, live] with equal element counts: the frozen handle is untouched; a hand-supplied gradient of shape [1,2] for a [2] parameter leaves the dimensions alone"),
        ("accumulate_shared", 6, "quick", "y = a + a*k: first adjoint of a through the addition (shared buffer), second a fresh array; seed and stored gradients re-checked; second pass"),
    ]:
        G.ob("c08_" + name, "C08", name, "c08::%s(s)" % name, unwind=unwind, tier=tier, skeleton={"history": what},
             domains="values, seeds D4; lr in {0,0.5,1,2}")
    for late, tier in ((False, "quick"), (True, "thorough")):
        G.ob("c08_update_after_graph_dropped_%d" % late, "C08", "update_after_graph_dropped",
             "c08::update_after_graph_dropped(s, %s)" % ("true" if late else "false"), unwind=8, tier=tier,
             skeleton={"history": "reshape view of a not-%s-tracked array; forward, backward, graph really dropped, GradientDescent::update; the view is unchanged" % ("currently" if late else "yet")},
             domains="values D4; lr in {0,0.5,1,2}")
