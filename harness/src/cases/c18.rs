//! C18 — dropping results releases everything they held.  This is where `Array`'s drop glue
//! is *verified* rather than avoided: every derived result is really dropped, and then each
//! leaf must again be the sole owner of its buffer (`Vec::<Float>::from(leaf)` unwraps the
//! `Rc` and panics otherwise).
use crate::chk;
use crate::programs::Program;
use crate::source::{Dom, Source};
use crate::util::*;
use crate::cases::grad::*;
use corgi::array::Array;
use corgi::numbers::Float;

/// the training-loop clause, through the `Model` struct: once the model has moved on to its
/// next forward pass (and the caller dropped what it was handed), the previous batch is again
/// the sole owner of its buffer - the previous output graph held by the model is gone
pub fn model_release<S: Source>(s: &mut S) {
    use corgi::layer::dense::Dense;
    use corgi::model::Model;
    use corgi::optimizer::gd::GradientDescent;
    let init = crate::cases::c15::initializer(s.vals(2, Dom::D2));
    let mut layer = Dense::new(1, 1, &init, None);
    let gd = GradientDescent::new(0.5);
    let costf: corgi::cost::CostFunction = Box::new(|o: &Array, t: &Array| o * t);
    let x1 = mk(s, &[1, 1], Dom::D2);
    let x2 = mk(s, &[1, 1], Dom::D2);
    let t1 = mk(s, &[1, 1], Dom::D2);
    {
        let mut model = Model::new(vec![&mut layer], &gd, &costf);
        let y1 = model.forward(x1.clone());
        let loss = model.backward(t1.clone());
        chk!(loss == y1.values()[0] * t1.values()[0], "[c15:model-loss] Model::backward did not return the sum of the cost array");
        drop(y1);
        let y2 = model.forward(x2.clone());
        // iteration 1's graph is gone: its batch and target are solely owned again
        let v: Vec<Float> = x1.into();
        forget(v);
        let v: Vec<Float> = t1.into();
        forget(v);
        forget((model, y2));
    }
    witness();
    forget((layer, x2));
    forget((init, costf));
}

/// after an optimizer update and the drop of every result, a handle the caller kept on the
/// pre-update parameter is the sole owner of its buffer: the new parameter does not hold its
/// predecessor (no chain of old parameters builds up over a training run)
pub fn update_release<S: Source>(s: &mut S, updates: usize) {
    use corgi::optimizer::gd::GradientDescent;
    use corgi::optimizer::Optimizer;
    let lr = s.lr();
    let gd = GradientDescent::new(lr);
    let mut p = mk(s, &[2], Dom::D4).tracked();
    let first = p.clone();
    for _ in 0..updates {
        let x = mk(s, &[2], Dom::D4);
        let r = &p * &x;
        r.backward(None);
        drop(r);
        gd.update(vec![&mut p]);
        let v: Vec<Float> = x.into();
        forget(v);
    }
    #[cfg(any(kani, corgi_verif))]
    {
        chk!(p.verif_children().is_empty(), "[c18:param-graph] an updated parameter holds a graph (its predecessors)");
        chk!(first.verif_values_owners() == 1, "[c18:owners] a hidden alias of the pre-update parameter survived");
    }
    let v: Vec<Float> = first.into();
    forget(v);
    witness();
    forget(p);
}

/// build, optionally pass (once or twice), drop every derived handle, then unwrap every leaf
pub fn release<P: Program, S: Source>(s: &mut S, p: &P, leaves: &[Leaf], passes: usize, keep_gradients: bool) {
    let b = build(s, leaves);
    let nodes = p.run::<Array>(&b.arrays);
    for _ in 0..passes {
        let root = &nodes[nodes.len() - 1];
        let (arg, _) = draw_seed(s, root, Seed::Explicit(Dom::D4));
        root.backward(arg);
    }
    // really drop every result
    drop(nodes);
    let mut grads: Vec<Option<Array>> = Vec::new();
    let mut arrays = b.arrays;
    forget(b.refs);
    #[cfg(any(kani, corgi_verif))]
    for a in arrays.iter() {
        chk!(a.verif_values_owners() == 1, "[c18:owners] a hidden alias of a leaf's buffer survived the drop of every result");
        chk!(a.verif_consumer_count() == 0, "[c18:residue-count] a consumer count survived");
        chk!(!a.verif_has_pending_delta(), "[c18:residue-delta] a pending partial adjoint survived");
    }
    while let Some(a) = arrays.pop() {
        if keep_gradients {
            // a stored gradient is an independent array: it neither keeps the leaf's buffer nor a graph
            let g = a.replace_gradient();
            if let Some(g) = g.as_ref() {
                #[cfg(any(kani, corgi_verif))]
                {
                    chk!(g.verif_children().is_empty(), "[c18:gradient-graph] a stored gradient keeps a graph alive");
                }
            }
            grads.push(g);
        }
        let v: Vec<Float> = a.into();
        forget(v);
    }
    witness();
    forget(grads);
}
