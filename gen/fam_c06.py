"""C06 - convolution equals the direct sliding-window definition (forward values)."""


def generate(G):
    L = G.leaf

    def conv(id, img, fil, stride, tier, dom="D4"):
        ls = [L(img, dom, tracked=False), L(fil, dom, tracked=False)]
        orows = (img[-2] - fil[-2]) // stride[0] + 1
        ocols = (img[-1] - fil[-1]) // stride[1] + 1
        batch = G.numel(img[:-3]) if len(img) > 3 else 1
        unrolled = batch * orows * ocols * fil[1] * fil[2] * fil[3]
        G.ob("c06_" + id, "C06", "values", "fwd::forward(s, &programs::Conv((%d, %d)), %s, false)" % (stride[0], stride[1], G.leaves(ls)),
             unwind=max(unrolled, G.numel(img), G.numel(fil), batch * fil[0] * orows * ocols) + 3, tier=tier, heavy=(unrolled > 16),
             skeleton={"image": img, "filters": fil, "stride": list(stride), "output": img[:-3] + [fil[0], orows, ocols],
                       "batch": "absent" if len(img) == 3 else batch,
                       "overlap": stride[0] < fil[2] or stride[1] < fil[3],
                       "uneven": (img[-2] - fil[-2]) % stride[0] != 0 or (img[-1] - fil[-1]) % stride[1] != 0},
             domains="image, filters: " + dom)

    conv("1x3x3_1x1x2x2_s11", [1, 3, 3], [1, 1, 2, 2], (1, 1), "quick")
    conv("1x2x4_1x1x2x2_s12", [1, 2, 4], [1, 1, 2, 2], (1, 2), "quick")
    conv("1x3x2_1x1x1x2_s21", [1, 3, 2], [1, 1, 1, 2], (2, 1), "quick")
    conv("1x3x3_1x1x2x2_s12_onecol", [1, 3, 3], [1, 1, 2, 2], (1, 2), "quick")     # one output column, filter narrower than the image
    conv("1x3x3_1x1x2x2_s21_onerow", [1, 3, 3], [1, 1, 2, 2], (2, 1), "thorough")
    conv("1x2x5_1x1x2x3_s13_onecol", [1, 2, 5], [1, 1, 2, 3], (1, 3), "thorough", dom="D2")
    conv("1x2x4_1x1x1x2_s13_uneven", [1, 2, 4], [1, 1, 1, 2], (1, 3), "quick")
    conv("2x2x2_2x2x1x2_s11", [2, 2, 2], [2, 2, 1, 2], (1, 1), "quick")
    conv("b1_1x2x3_1x1x2x2_s11", [1, 1, 2, 3], [1, 1, 2, 2], (1, 1), "quick")
    conv("b2_1x2x2_1x1x2x1_s11", [2, 1, 2, 2], [1, 1, 2, 1], (1, 1), "quick")
    conv("b2_1x2x3_2x1x2x2_s11", [2, 1, 2, 3], [2, 1, 2, 2], (1, 1), "quick", dom="D2")
    conv("b2_2x1x2_2x2x1x1_s11", [2, 2, 1, 2], [2, 2, 1, 1], (1, 1), "quick", dom="D2")
    # thorough
    conv("1x3x3_1x1x2x2_s22_uneven", [1, 3, 3], [1, 1, 2, 2], (2, 2), "thorough")
    conv("1x3x4_1x1x2x3_s11", [1, 3, 4], [1, 1, 2, 3], (1, 1), "thorough", dom="D2")
    conv("1x4x4_1x1x2x2_s22", [1, 4, 4], [1, 1, 2, 2], (2, 2), "thorough", dom="D2")
    conv("1x4x5_1x1x2x3_s21", [1, 4, 5], [1, 1, 2, 3], (2, 1), "thorough", dom="D2")
    conv("1x4x5_1x1x2x3_s12", [1, 4, 5], [1, 1, 2, 3], (1, 2), "thorough", dom="D2")
    conv("2x3x3_1x2x2x2_s11", [2, 3, 3], [1, 2, 2, 2], (1, 1), "thorough", dom="D2")
    conv("1x3x3_2x1x2x2_s11", [1, 3, 3], [2, 1, 2, 2], (1, 1), "thorough", dom="D2")
    conv("2x2x3_2x2x2x2_s11", [2, 2, 3], [2, 2, 2, 2], (1, 1), "thorough", dom="D2")
    conv("b2_1x3x3_1x1x2x2_s11", [2, 1, 3, 3], [1, 1, 2, 2], (1, 1), "thorough", dom="D2")
    conv("b2_2x2x2_2x2x1x2_s11", [2, 2, 2, 2], [2, 2, 1, 2], (1, 1), "thorough", dom="D2")
    conv("b3_1x2x2_1x1x1x1_s11", [3, 1, 2, 2], [1, 1, 1, 1], (1, 1), "thorough")
    conv("b2x2_1x2x2_1x1x2x2_s11", [2, 2, 1, 2, 2], [1, 1, 2, 2], (1, 1), "thorough", dom="D2")
    conv("b2_1x2x4_2x1x1x2_s12", [2, 1, 2, 4], [2, 1, 1, 2], (1, 2), "thorough", dom="D2")
    conv("b2_1x3x2_1x1x2x2_s21_uneven", [2, 1, 4, 2], [1, 1, 2, 2], (3, 1), "thorough", dom="D2")
    conv("1x1x1_1x1x1x1_s11", [1, 1, 1], [1, 1, 1, 1], (1, 1), "thorough")
    conv("1x2x2_1x1x2x2_s33_full", [1, 2, 2], [1, 1, 2, 2], (3, 3), "thorough")
