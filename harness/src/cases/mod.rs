pub mod canary;
pub mod grad;
pub mod c03;
pub mod c04;
