"""C03 - gradients have their array's shape; broadcast contributions are summed.

Cost note: every use of a rank-2 operand costs several `sliced_op` calls in the pass (5-10 s of
symex and ~0.5 GB each), so the quick core keeps multi-use obligations on [2,2] partners and
single uses on the rank-3/4 classes; the thorough pool repeats every class with [2,3] / rank-3
partners, uses 1..3 and passes 1..2."""


def generate(G):
    # (x dims, partner dims, class)
    classes = [
        ([2], [2, 2], "lower-rank"),
        ([1, 2], [2, 2], "leading-unit"),
        ([2, 1], [2, 2], "trailing-unit"),
        ([1], [2, 2], "all-unit-rank1"),
        ([1, 1], [2, 2], "all-unit-rank2"),
        ([2, 2], [2, 2], "no-broadcast"),
        ([2, 1], [1, 2], "both-sides"),
        ([3], [2, 3], "lower-rank"),
        ([1, 3], [2, 3], "leading-unit"),
        ([2, 1], [2, 3], "trailing-unit"),
        ([2, 1], [1, 3], "both-sides"),
        ([2, 1, 2], [2, 2, 2], "interior-unit"),
        ([2, 2], [2, 2, 2], "rank2-in-rank3"),
        ([1, 2], [2, 2, 2], "rank2-leading-unit-in-rank3"),
        ([2, 1], [2, 2, 2], "rank2-trailing-unit-in-rank3"),
        ([1, 2, 1], [2, 2, 2], "two-units"),
        ([2], [2, 2, 2], "rank1-in-rank3"),
        ([1, 1, 2], [2, 2, 2], "two-leading-units"),
        ([2, 1, 2], [2, 2, 1, 2], "rank3-interior-unit-in-rank4"),
        ([2, 1, 1, 2], [2, 2, 2, 2], "rank4-two-interior-units"),
    ]
    quick = {
        ("2", "2x2", 1, 1), ("2", "2x2", 2, 1),
        ("1x2", "2x2", 1, 2), ("1x2", "2x2", 2, 1),
        ("2x1", "2x2", 1, 1), ("1", "2x2", 2, 1),
        ("2x1x2", "2x2x2", 1, 1), ("2x2", "2x2x2", 1, 1), ("1x2", "2x2x2", 1, 1), ("2x1", "2x2x2", 1, 1),
        ("1x2x1", "2x2x2", 1, 1), ("2", "2x2x2", 1, 1),
    }
    progs = {1: ("Mul", 1), 2: ("BcastTwice", 2), 3: ("BcastThrice", 3)}
    for xd, yd, cls in classes:
        out = G.bcast(xd, yd)
        n = G.numel(out)
        dom = "D2" if n >= 8 else "D4"
        for u in (1, 2, 3):
            for passes in (1, 2):
                # rank-3/4 partners: three uses or (two uses and two passes) cost 10+ min and 9+ GB each - not enumerated
                if n >= 8 and (u == 3 or (u == 2 and passes == 2)):
                    continue
                prog, npart = progs[u]
                tier = "quick" if (G.sname(xd), G.sname(yd), u, passes) in quick else "thorough"
                id = "c03_shape_%s_%s_u%d_p%d" % (G.sname(xd), G.sname(yd), u, passes)
                ls = [G.leaf(xd, dom)]
                for i in range(npart):
                    # single use: the partner is tracked as well; several uses: partners untracked
                    # (their gradients are C02's subject and would double the cost of the pass)
                    ls.append(G.leaf(yd, dom, tracked=(u == 1)))
                G.ob(id, "C03", "shape",
                     "grad::grad_passes(s, &programs::%s, %s, Seed::Explicit(Dom::%s), false, %d)" % (prog, G.leaves(ls), dom, passes),
                     unwind=n + G.numel(xd) + 3, tier=tier, heavy=(n >= 6 and (u >= 2 or passes >= 2)) or n >= 8,
                     skeleton={"x": xd, "partner": yd, "class": cls, "uses": u, "passes": passes, "program": prog},
                     domains="values and per-pass seeds: %s" % dom)
    # the additive term of a batched matmul with its own batch dimension and a unit row dimension
    G.ob("c03_matmul_bias_2x1x2", "C03", "matmul_bias",
         "grad::grad(s, &programs::Matmul { at: false, bt: false, c: true }, %s, Seed::Explicit(Dom::D4), false)" % G.leaves(
             [G.leaf([2, 2, 1], "D2", tracked=False), G.leaf([2, 1, 2], "D2", tracked=False), G.leaf([2, 1, 2], "D4")]),
         unwind=14, tier="quick", heavy=True,
         skeleton={"x": [2, 1, 2], "role": "additive term of [2,2,1] x [2,1,2] -> [2,2,2]", "class": "batch dimension + unit row dimension"},
         domains="matrices D2 (untracked), additive term and seed D4")
    # a matmul operand of rank 3 broadcast against a rank-4 partner (only along the dimension it lacks)
    G.ob("c03_matmul_right_rank3", "C03", "matmul_operand",
         "grad::grad(s, &programs::Matmul { at: false, bt: false, c: false }, %s, Seed::Explicit(Dom::D4), false)" % G.leaves(
             [G.leaf([2, 2, 1, 2], "D2", tracked=False), G.leaf([2, 2, 1], "D4")]),
         unwind=14, tier="quick", heavy=True,
         skeleton={"x": [2, 2, 1], "role": "right operand of [2,2,1,2] x [2,2,1] -> [2,2,1,1]", "class": "rank-3 operand under a rank-4 partner"},
         domains="left matrix D2 (untracked), right operand and seed D4")
    for xd, yd, cls, tier in [([2], [2, 2], "lower-rank", "quick"), ([1, 2], [2, 2], "leading-unit", "quick"),
                              ([3], [2, 3], "lower-rank", "thorough"), ([1, 3], [2, 3], "leading-unit", "thorough"),
                              ([2, 1], [2, 3], "trailing-unit", "thorough"), ([1, 2], [2, 2, 2], "rank2-leading-unit-in-rank3", "thorough")]:
        for u in (1, 2):
            n = G.numel(yd)
            G.ob("c03_align_%s_%s_u%d" % (G.sname(xd), G.sname(yd), u), "C03", "align",
                 "c03::align(s, %s, %s, %d)" % (G.rs(xd), G.rs(yd), u), unwind=n + 3,
                 tier=tier if u == 2 else "thorough",
                 skeleton={"x": xd, "partner": yd, "class": cls, "uses": u, "parameters": "[p0:[2], x, p2:[1,2]]"},
                 domains="values, gradients D4; lr in {0,0.5,1,2}; seed omitted (ones)")
