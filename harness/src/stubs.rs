//! Table stubs for the transcendental functions (DESIGN.md §3.3).
//!
//! Kani models `exp`, `ln`, `powf` as unconstrained nondeterministic values, so under
//! `-Z stubbing` they are replaced - in corgi *and* in the reference model alike - by
//! functions that return the (correctly rounded) value on the harness's value domain and
//! are `assume(false)` elsewhere.  Every harness ends in a reachability witness, so a call
//! outside the table makes the obligation INCONCLUSIVE (vacuous), never a pass.
//! Natively (replay) the real libm functions are used; these stubs are not compiled in.
use corgi::numbers::Float;

#[cfg(kani)]
#[inline(always)]
fn outside_table() -> Float {
    kani::assume(false);
    0.0
}
#[cfg(not(kani))]
fn outside_table() -> Float {
    panic!("[stub] argument outside the table")
}

/// e^x for integer x in -4..=4
pub fn exp(x: Float) -> Float {
    if x == 0.0 {
        1.0
    } else if x == 1.0 {
        2.718281828459045
    } else if x == 2.0 {
        7.38905609893065
    } else if x == 3.0 {
        20.085536923187668
    } else if x == 4.0 {
        54.598150033144236
    } else if x == -1.0 {
        0.36787944117144233
    } else if x == -2.0 {
        0.1353352832366127
    } else if x == -3.0 {
        0.049787068367863944
    } else if x == -4.0 {
        0.01831563888873418
    } else {
        outside_table()
    }
}

/// ln x for x in {1, 2, 3, 4, 1/2, 1/4, 8}
pub fn ln(x: Float) -> Float {
    if x == 1.0 {
        0.0
    } else if x == 2.0 {
        0.6931471805599453
    } else if x == 3.0 {
        1.0986122886681098
    } else if x == 4.0 {
        1.3862943611198906
    } else if x == 8.0 {
        2.0794415416798357
    } else if x == 0.5 {
        -0.6931471805599453
    } else if x == 0.25 {
        -1.3862943611198906
    } else {
        outside_table()
    }
}

/// x^e for integer e in -3..=3 (by repeated multiplication - exact whenever the result is
/// representable, in particular on small integers and powers of two) and e = ±0.5 on
/// {0, 1, 4, 1/4, 16}
pub fn powf(x: Float, e: Float) -> Float {
    if e == 0.0 {
        1.0
    } else if e == 1.0 {
        x
    } else if e == 2.0 {
        x * x
    } else if e == 3.0 {
        x * x * x
    } else if e == -1.0 {
        1.0 / x
    } else if e == -2.0 {
        1.0 / (x * x)
    } else if e == -3.0 {
        1.0 / (x * x * x)
    } else if e == 0.5 || e == -0.5 {
        let r = if x == 0.0 {
            0.0
        } else if x == 1.0 {
            1.0
        } else if x == 4.0 {
            2.0
        } else if x == 16.0 {
            4.0
        } else if x == 0.25 {
            0.5
        } else {
            return outside_table();
        };
        if e == 0.5 {
            r
        } else {
            1.0 / r
        }
    } else {
        outside_table()
    }
}
