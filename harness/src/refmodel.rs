//! Independent reference model (DESIGN.md §3.4).
//!
//! Plain loops over `Vec<Float>`, row-major tensors, right-aligned broadcasting, the
//! textbook definition of every operation, and a *forward-mode* (tangent) evaluator used
//! as the gradient oracle.  Shares no code and no algorithm with corgi's `sliced_op`
//! walker or its reverse-mode scheduling.
//!
//! A tensor carries its value and, per element, a *sparse* tangent: the list of
//! (input direction, coefficient) pairs that are structurally non-zero, so the symbolic
//! execution pays only for the partial derivatives that exist.

use corgi::numbers::Float;

#[derive(Debug)]
pub struct T {
    pub d: Vec<usize>,
    pub v: Vec<Float>,
    /// sparse tangents: `t[element]` = [(direction, ∂element/∂direction), …]
    pub t: Vec<Vec<(usize, Float)>>,
    pub ndir: usize,
}

/// Cloning is done element by element: the derived `Clone` (nested `Vec::clone`) costs CBMC the
/// concrete lengths of the tangent rows, after which every loop over them unwinds to the bound
/// (measured: 29 GB and out of memory instead of 2 GB).
impl Clone for T {
    fn clone(&self) -> T {
        let n = self.v.len();
        let mut d = Vec::with_capacity(self.d.len());
        for x in self.d.iter() {
            d.push(*x);
        }
        let mut v = Vec::with_capacity(n);
        let mut t = Vec::with_capacity(n);
        for i in 0..n {
            v.push(self.v[i]);
            let mut row = Vec::with_capacity(self.t[i].len());
            for e in self.t[i].iter() {
                row.push(*e);
            }
            t.push(row);
        }
        T {
            d,
            v,
            t,
            ndir: self.ndir,
        }
    }
}

/// acc += k · src   (sparse rows)
fn acc_row(acc: &mut Vec<(usize, Float)>, src: &[(usize, Float)], k: Float) {
    for &(d, c) in src {
        let mut found = false;
        for e in acc.iter_mut() {
            if e.0 == d {
                e.1 += k * c;
                found = true;
            }
        }
        if !found {
            acc.push((d, k * c));
        }
    }
}

pub fn numel(d: &[usize]) -> usize {
    let mut n = 1;
    for x in d {
        n *= *x;
    }
    n
}

/// Right-aligned broadcast shape, `None` when incompatible.
pub fn bcast_dims(a: &[usize], b: &[usize]) -> Option<Vec<usize>> {
    let r = if a.len() > b.len() { a.len() } else { b.len() };
    let mut out = vec![0; r];
    for k in 0..r {
        // k counts from the right
        let x = if k < a.len() { a[a.len() - 1 - k] } else { 1 };
        let y = if k < b.len() { b[b.len() - 1 - k] } else { 1 };
        if x == y || y == 1 {
            out[r - 1 - k] = x;
        } else if x == 1 {
            out[r - 1 - k] = y;
        } else {
            return None;
        }
    }
    Some(out)
}

/// Multi-index of flat position `p` in row-major `d`.
pub fn unflatten(mut p: usize, d: &[usize]) -> Vec<usize> {
    let mut idx = vec![0; d.len()];
    for k in (0..d.len()).rev() {
        idx[k] = p % d[k];
        p /= d[k];
    }
    idx
}

/// Row-major flat position of `idx` (as long as `d`) in `d`.
pub fn flatten(idx: &[usize], d: &[usize]) -> usize {
    let mut p = 0;
    for k in 0..d.len() {
        p = p * d[k] + idx[k];
    }
    p
}

/// Flat position in an operand of shape `d` of the element that output index `idx`
/// (of a broadcast result of rank ≥ d.len()) reads: right-aligned, index 0 along unit dims.
pub fn bcast_pos(idx: &[usize], d: &[usize]) -> usize {
    let off = idx.len() - d.len();
    let mut p = 0;
    for k in 0..d.len() {
        let i = if d[k] == 1 { 0 } else { idx[off + k] };
        p = p * d[k] + i;
    }
    p
}

#[derive(Clone, Copy, PartialEq, Eq, Debug)]
pub enum Bin {
    Add,
    Sub,
    Mul,
    Div,
}

impl T {
    /// A constant (no tangents in any of `ndir` directions).
    pub fn konst(d: &[usize], v: Vec<Float>, ndir: usize) -> T {
        assert!(numel(d) == v.len());
        let n = v.len();
        T {
            d: d.to_vec(),
            v,
            t: vec![Vec::new(); n],
            ndir,
        }
    }
    /// An independent variable occupying directions `first .. first+len`.
    pub fn var(d: &[usize], v: Vec<Float>, first: usize, ndir: usize) -> T {
        let mut x = T::konst(d, v, ndir);
        for i in 0..x.v.len() {
            x.t[i].push((first + i, 1.0));
        }
        x
    }
    pub fn ndir(&self) -> usize {
        self.ndir
    }
    pub fn len(&self) -> usize {
        self.v.len()
    }

    /// point-wise map with derivative `df` (evaluated at the input value)
    pub fn map(&self, f: impl Fn(Float) -> Float, df: impl Fn(Float) -> Float) -> T {
        let n = self.len();
        let mut v = Vec::with_capacity(n);
        let mut t = Vec::with_capacity(n);
        for i in 0..n {
            v.push(f(self.v[i]));
            let mut row = Vec::new();
            if !self.t[i].is_empty() {
                acc_row(&mut row, &self.t[i], df(self.v[i]));
            }
            t.push(row);
        }
        T {
            d: self.d.clone(),
            v,
            t,
            ndir: self.ndir,
        }
    }

    pub fn bin(&self, op: Bin, o: &T) -> Option<T> {
        let d = bcast_dims(&self.d, &o.d)?;
        let n = numel(&d);
        let mut v = Vec::with_capacity(n);
        let mut t = Vec::with_capacity(n);
        for p in 0..n {
            let idx = unflatten(p, &d);
            let i = bcast_pos(&idx, &self.d);
            let j = bcast_pos(&idx, &o.d);
            let (x, y) = (self.v[i], o.v[j]);
            v.push(match op {
                Bin::Add => x + y,
                Bin::Sub => x - y,
                Bin::Mul => x * y,
                Bin::Div => x / y,
            });
            let mut row = Vec::new();
            let (kx, ky) = match op {
                Bin::Add => (1.0, 1.0),
                Bin::Sub => (1.0, -1.0),
                Bin::Mul => (y, x),
                // d(x/y) = dx/y - x·dy/y²
                Bin::Div => (1.0 / y, -(x / (y * y))),
            };
            if !self.t[i].is_empty() {
                acc_row(&mut row, &self.t[i], kx);
            }
            if !o.t[j].is_empty() {
                acc_row(&mut row, &o.t[j], ky);
            }
            t.push(row);
        }
        Some(T {
            d,
            v,
            t,
            ndir: self.ndir,
        })
    }

    /// `sum(k)`: the last k dimensions collapsed into one unit dimension; k = 0 identity.
    pub fn sum(&self, k: usize) -> T {
        if k == 0 {
            return self.linear(self.d.clone(), |p| vec![(p, 1.0)]);
        }
        let lead = self.d.len() - k;
        let mut d: Vec<usize> = self.d[..lead].to_vec();
        d.push(1);
        let group = numel(&self.d[lead..]);
        self.linear(d, |g| {
            let mut ts = Vec::with_capacity(group);
            for e in 0..group {
                ts.push((g * group + e, 1.0));
            }
            ts
        })
    }

    pub fn reshape(&self, d: &[usize]) -> Option<T> {
        if numel(d) != self.len() || d.iter().any(|x| *x == 0) {
            return None;
        }
        // rebuilt element by element (cloning nested Vecs costs CBMC the concrete lengths)
        Some(self.linear(d.to_vec(), |p| vec![(p, 1.0)]))
    }

    /// Linear gather: output element p = Σ_q coef · self[q] over `terms(p)`.
    fn linear(&self, d: Vec<usize>, terms: impl Fn(usize) -> Vec<(usize, Float)>) -> T {
        let n = numel(&d);
        let mut v = Vec::with_capacity(n);
        let mut t = Vec::with_capacity(n);
        for p in 0..n {
            let ts = terms(p);
            let mut s = 0.0;
            let mut row = Vec::new();
            for (q, c) in ts.iter() {
                s += *c * self.v[*q];
                if !self.t[*q].is_empty() {
                    acc_row(&mut row, &self.t[*q], *c);
                }
            }
            v.push(s);
            t.push(row);
        }
        T {
            d,
            v,
            t,
            ndir: self.ndir,
        }
    }

    pub fn scale(&self, c: Float) -> T {
        self.linear(self.d.clone(), |p| vec![(p, c)])
    }
    pub fn neg(&self) -> T {
        self.scale(-1.0)
    }
}

/// View of a rank-≥1 operand as (leading dims, rows, cols) for matmul; a rank-1 operand
/// is a one-row matrix.
fn as_matrix(d: &[usize]) -> (Vec<usize>, usize, usize) {
    if d.len() < 2 {
        (vec![], 1, d[0])
    } else {
        (d[..d.len() - 2].to_vec(), d[d.len() - 2], d[d.len() - 1])
    }
}

/// Batched, optionally transposed matrix product with optional additive term.
///
/// Definition (property C05): for every index of the broadcast leading dimensions,
/// op(A)·op(B) + c, c broadcast over rows and batches.  Rank-1 next to rank ≥ 2: one-row
/// matrix; two untransposed rank-1 operands: dot product (shape [1]).
/// Returns `None` where the definition refuses (inner mismatch, leading dims not
/// broadcastable, additive term not broadcastable to [rows, cols]).
pub fn matmul(a: &T, at: bool, b: &T, bt: bool, c: Option<&T>) -> Option<T> {
    if a.d.len() < 2 && b.d.len() < 2 && !at && !bt {
        // two untransposed rank-1 operands: their dot product, shape [1]
        if a.d[0] != b.d[0] || c.is_some() {
            return None;
        }
        let mut s = 0.0;
        let mut row = Vec::new();
        for k in 0..a.d[0] {
            s += a.v[k] * b.v[k];
            if !a.t[k].is_empty() {
                acc_row(&mut row, &a.t[k], b.v[k]);
            }
            if !b.t[k].is_empty() {
                acc_row(&mut row, &b.t[k], a.v[k]);
            }
        }
        return Some(T {
            d: vec![1],
            v: vec![s],
            t: vec![row],
            ndir: a.ndir,
        });
    }
    matmul_core(a, at, b, bt, c)
}

fn matmul_core(a: &T, at: bool, b: &T, bt: bool, c: Option<&T>) -> Option<T> {
    let (la, ar, ac) = as_matrix(&a.d);
    let (lb, br, bc) = as_matrix(&b.d);
    let (m, ka) = if at { (ac, ar) } else { (ar, ac) };
    let (kb, n) = if bt { (bc, br) } else { (br, bc) };
    if ka != kb {
        return None;
    }
    let lead = bcast_dims_or_empty(&la, &lb)?;
    let both_vec = a.d.len() < 2 && b.d.len() < 2;
    let mut d = lead.clone();
    if both_vec {
        d.push(n);
    } else {
        d.push(m);
        d.push(n);
    }
    if let Some(c) = c {
        // broadcastable to [.., m, n]
        let target: Vec<usize> = {
            let mut x = lead.clone();
            x.push(m);
            x.push(n);
            x
        };
        if c.len() != 1 {
            let bd = bcast_dims(&target, &c.d)?;
            if bd != target {
                return None;
            }
        }
    }
    let batches = numel(&lead);
    let total = batches * m * n;
    let mut v = Vec::with_capacity(total);
    let mut t = Vec::with_capacity(total);
    for bi in 0..batches {
        let lidx = unflatten(bi, &lead);
        let ao = if la.is_empty() { 0 } else { bcast_pos(&lidx, &la) } * ar * ac;
        let bo = if lb.is_empty() { 0 } else { bcast_pos(&lidx, &lb) } * br * bc;
        for r in 0..m {
            for j in 0..n {
                let mut s = 0.0;
                let mut row = Vec::new();
                for k in 0..ka {
                    let ai = ao + if at { k * ac + r } else { r * ac + k };
                    let bj = bo + if bt { j * bc + k } else { k * bc + j };
                    s += a.v[ai] * b.v[bj];
                    if !a.t[ai].is_empty() {
                        acc_row(&mut row, &a.t[ai], b.v[bj]);
                    }
                    if !b.t[bj].is_empty() {
                        acc_row(&mut row, &b.t[bj], a.v[ai]);
                    }
                }
                if let Some(c) = c {
                    let ci = if c.len() == 1 {
                        0
                    } else {
                        let mut idx = lidx.clone();
                        idx.push(r);
                        idx.push(j);
                        bcast_pos(&idx, &c.d)
                    };
                    s += c.v[ci];
                    if !c.t[ci].is_empty() {
                        acc_row(&mut row, &c.t[ci], 1.0);
                    }
                }
                v.push(s);
                t.push(row);
            }
        }
    }
    Some(T {
        d,
        v,
        t,
        ndir: a.ndir,
    })
}

fn bcast_dims_or_empty(a: &[usize], b: &[usize]) -> Option<Vec<usize>> {
    if a.is_empty() {
        return Some(b.to_vec());
    }
    if b.is_empty() {
        return Some(a.to_vec());
    }
    bcast_dims(a, b)
}

/// Direct sliding-window convolution (property C06).
/// image [batch..., depth, rows, cols], filters [count, depth, frows, fcols].
pub fn conv(img: &T, fil: &T, stride: (usize, usize)) -> Option<T> {
    let r = img.d.len();
    if r < 3 || fil.d.len() != 4 {
        return None;
    }
    let (depth, rows, cols) = (img.d[r - 3], img.d[r - 2], img.d[r - 1]);
    let (count, fd, fr, fc) = (fil.d[0], fil.d[1], fil.d[2], fil.d[3]);
    if fd != depth || fr > rows || fc > cols {
        return None;
    }
    let (sr, sc) = stride;
    let orows = (rows - fr) / sr + 1;
    let ocols = (cols - fc) / sc + 1;
    let lead: Vec<usize> = img.d[..r - 3].to_vec();
    let batches = numel(&lead);
    let mut d = lead.clone();
    d.push(count);
    d.push(orows);
    d.push(ocols);
    let total = numel(&d);
    let mut v = Vec::with_capacity(total);
    let mut t = Vec::with_capacity(total);
    for b in 0..batches {
        for f in 0..count {
            for y in 0..orows {
                for x in 0..ocols {
                    let mut s = 0.0;
                    let mut row = Vec::new();
                    for k in 0..depth {
                        for m in 0..fr {
                            for n in 0..fc {
                                let ii = ((b * depth + k) * rows + (y * sr + m)) * cols + (x * sc + n);
                                let fi = ((f * depth + k) * fr + m) * fc + n;
                                s += img.v[ii] * fil.v[fi];
                                if !img.t[ii].is_empty() {
                                    acc_row(&mut row, &img.t[ii], fil.v[fi]);
                                }
                                if !fil.t[fi].is_empty() {
                                    acc_row(&mut row, &fil.t[fi], img.v[ii]);
                                }
                            }
                        }
                    }
                    v.push(s);
                    t.push(row);
                }
            }
        }
    }
    Some(T {
        d,
        v,
        t,
        ndir: img.ndir,
    })
}

/// softmax over the last dimension
pub fn softmax(x: &T, exp: impl Fn(Float) -> Float + Copy) -> T {
    let e = x.map(exp, exp);
    let s = e.sum(1);
    e.bin(Bin::Div, &s).unwrap()
}

/// Jᵀ·seed: for every input direction  Σ_j seed_j · ∂result_j/∂direction
pub fn vjp_all(result: &T, seed: &[Float]) -> Vec<Float> {
    let mut g = vec![0.0; result.ndir];
    for j in 0..result.len() {
        for &(d, c) in result.t[j].iter() {
            g[d] += seed[j] * c;
        }
    }
    g
}
