#!/usr/bin/env python3
"""Writes /verif/MANIFEST.json (run after changing which properties are claimed)."""
import json
import os
import subprocess

ROOT = os.path.dirname(os.path.dirname(os.path.abspath(__file__)))

TECH = "Kani/CBMC bounded model checking (SAT, CaDiCaL) of corgi's compiled MIR: one #[kani::proof] harness per enumerated skeleton, values symbolic, counterexamples replayed natively"
BASE = ("bounded: only the enumerated skeletons (shapes, graph topologies, histories) are decided and nothing is claimed outside them; "
        "values range over small exact domains (D4={0,1,2,3}, Dpos={1,2,4}, Dsgn={-2..1}, D2, lr in {0,.5,1,2}); extension to all floats rests on "
        "corgi's data-independence (DESIGN.md 3.2), not on the solver; trusted: rustc MIR -> Kani 0.68 -> CBMC 6.11 -> CaDiCaL, Kani's models of "
        "alloc/Rc/Vec, the reference model (validated natively against the real build by smoke.py); ")

P = {
    "C01": ("per program (every DAG over <=2 leaves with <=2 add/mul nodes in quick, <=3 in thorough, plus curated graphs with sharing x broadcasting, "
            "diamonds, self-product chains, unary ops, sum, reshape, matmul, batched conv, detach/keep flags) one CBMC query proves, for every leaf value "
            "and every seed in the domain, that the forward value equals the reference and every tracked leaf's gradient equals the forward-mode "
            "oracle's J^T.seed exactly, untracked leaves hold none, and no panic is reachable",
            "data-dependent control flow (README loop) is not yet an obligation; powf/exp/ln by table stubs"),
    "C02": ("one query per operation x parameterisation (broadcast class, exponent, k of sum, reshape target, 4 transposes x additive term x leading dims, "
            "conv stride/overlap/uneven fit/batch, relu, sigmoid, softmax) with a non-uniform symbolic seed and tracked subsets: gradient == J^T.seed of the "
            "reference's forward-mode Jacobian",
            "exp/ln/powf by table stubs (sigmoid/softmax/exp compared with relative tolerance 1e-9); powf exponent 0 / 0.5 / negative only on Dpos/{1,4}"),
    "C03": ("per broadcast class (lower rank, leading/interior/trailing unit, all-unit, both sides, rank-2 in rank-3, ...) x uses 1..3 x passes 1..2: gradient "
            "dimensions == the array's and values == summed adjoint (forward-mode oracle); plus optimizer alignment with a broadcast parameter between two others",
            "uses <= 3, passes <= 2, rank <= 4"),
    "C04": ("the shape rule with SYMBOLIC dimensions (1..65536, every rank pair <= 4x4, via the hook) both directions (pairwise max / refusal); per shape pair "
            "one query proves every output element for every operand value (add, sub, mul, div, axpy); incompatible pairs: corgi's panic is reached on every path",
            "values per enumerated shape pair (thorough: all pairs rank<=3 extents<=2, rank<=2 extents<=3, curated rank 4)"),
    "C05": ("per (rows, inner, cols) x transposes x leading-dimension pattern x additive-term form x rank-1 form: every output element equals the "
            "reference triple loop for every operand value; mismatching inner dimension / leading dims / additive term: refusal on every path",
            "sizes <= 3, <= 2 leading dimensions"),
    "C06": ("per (batch absent/1/2/2x2, depth, filters, image <= 4x5, filter <= 2x3, strides incl. uneven fit, one-row/one-column outputs): dims and every "
            "output element equal the direct sliding-window sum for every image/filter value",
            "small images only; values D4/D2"),
    "C07": ("sum(k) for every k on 12 shapes incl. unit tails, sum_all, reshape pairs + refusals, every point-wise map, softmax rows non-negative and summing to 1 "
            "(tolerance 1e-9), full-width (every f64 bit pattern) neg and relu on shape [1]",
            "exp/ln/powf by table stubs - real-number range behaviour of exp (overflow/underflow) is outside the claim"),
    "C08": ("seven histories (forward ops; two/three passes with a fetched gradient; shared delta buffer through an addition; reshape views; optimizer update "
            "with graph alive / dropped; drops of clones and results): after every step every live handle is compared bit-for-bit with its creation snapshot",
            "histories <= 8 steps on shapes [2], [2,2]; the blas feature is not built"),
    "C09": ("per operation x every tracked/untracked operand assignment: result flag == OR, untracked results record nothing and leave operands sole owners; "
            "passes restore flags of handles and of recorded clones (hook), gradients are untracked and graph-free, a second pass doubles; untracked-first operand "
            "order; clone flag independence; stop-gradient through an untracked intermediate",
            "flags are enumerated, not symbolic"),
    "C10": ("histories of <= 4 steps (same root 2-3x, interior then result and vice versa, two results sharing a sub-graph, replace_gradient / gradient_mut "
            "clearing, handle drops, untracked leaf, start_tracking() leaves): gradient == sum of the per-pass oracle gradients since the last clearing; hook: "
            "after every pass consumer counts are 0 and nothing is pending (the inductive clean-state step)",
            "graphs on shape [2]; clean-state induction argued over the enumerated graphs"),
    "C11": ("graphs built only from Array::op with counting closures (every DAG <= 2 nodes quick / 3 thorough, self-product chains to depth 5/6, fan-out 3, "
            "diamond): each closure ran exactly once, after all its consumers, and received the node's complete adjoint",
            "values D2; counts do not depend on values - the solver's part is the adjoint equality and absence of counter underflow"),
    "C12": ("eight edits of (a*b + a) * b (clone operands, drop after use, rebind, pass from a dropped clone of the root, work on leaf clones, "
            "raw.clone().tracked(), a derivative-less Array::op first): value and gradients equal the oracle and are visible through every clone",
            "one program shape [2]"),
    "C13": ("parameter lists of 1-4 parameters x every frozen subset (thorough) x repeats: new == old - lr*g per element, dims kept, tracked, gradient cleared; "
            "frozen ones bit-identical, and frozen-by-stop_tracking ones keep their flag",
            "shapes from {[1],[2],[1,2],[2,1],[2,2]}"),
    "C14": ("explicit iteration  Layer::forward -> cost -> backward -> GradientDescent::update(Layer::parameters())  for Dense (1->1, 2->1, relu, mse/bilinear cost, "
            "1-2 iterations) and Conv (one layer, and a two-layer stack): loss == reference loss of the current parameters, every parameter moves by -lr x the "
            "forward-mode gradient, parameters tracked / gradient-free / graph-free / no residue (hook) after every update",
            "the iteration is the explicit sequence: Model::update / Model::parameters are NOT executed (their encoding does not finish, DESIGN.md closing note) - a change confined to "
            "them is outside what this check can see (Model::forward/backward are executed by C15/C18 obligations); quick = one iteration + clean-state assertions (inductive step), "
            "thorough = up to 2-3 iterations, mse, batches of two, conv->conv"),
    "C15": ("Dense x {none, relu, sigmoid, softmax} x {[in], [1,in], [2,in]}, Conv layer x batch x stride incl. bias [F,1,1] broadcast into a batch, two-layer "
            "composition, mse, cross-entropy (rank 1-3), loss == sum of the cost array: every output element equals the documented formula evaluated by the reference",
            "Model::forward (composition) and Model::backward (returned loss, gradients) ARE executed (model_forward / model_backward, Dense 1->1 stacks); Model::update is not (see C14)"),
    "C16": ("SYMBOLIC dimensions (rank 1-4, extents 1..5 quick / 1..8 thorough) and symbolic indices: multi-index and flat index address the row-major element, "
            "out-of-range flat index refused; constructor from (dims, values) with symbolic dims incl. 0 and symbolic length: accepted iff valid; zeros; nested "
            "arr! depth 1-3 and mismatching nests refused; == iff dims and values equal across tracking state / graph / gradient / storage-sharing views",
            "extents <= 8"),
    "C17": ("three fresh instances per program seeded s1, s2, alpha*s1+beta*s2 (alpha, beta in {0,1,2} symbolic): g3 == alpha*g1 + beta*g2 exactly; "
            "backward(None) vs explicit ones bit-identical",
            "programs on shapes [2], [2,2]"),
    "C18": ("programs x {no pass, 1 pass, 2 passes} with every derived handle REALLY dropped (drop glue verified, not forgotten): every leaf unwraps as sole owner "
            "(Vec::from), hook: owner count 1, no counter/delta residue; stored gradients carry no graph",
            "the training-loop clause is decided through the real Model for forward/backward/forward-again (model_release); Model::update is not executed (see C14)"),
    "C19": ("the obligations of C01-C07 (3 per property + 6 width-sensitive reductions in quick; all quick cores in thorough) recompiled with --features f32 in "
            "their own Kani target: identical assertions (exact domains are exact in f32 too), tolerance 1e-4 where inexact",
            "only the re-run obligations; real-number accuracy of f32 exp/ln outside"),
}


def main():
    props = [json.loads(l) for l in open(os.path.join(ROOT, "properties.jsonl"))]
    hooks = subprocess.run(["git", "-C", "/repo", "log", "--format=%h", "--grep=verif hooks"], capture_output=True, text=True).stdout.split()
    m = {
        "version": 1,
        "setup_cmd": "./setup.sh",
        "hooks": {
            "guard": "cfg(any(kani, corgi_verif))",
            "enable": "cargo kani sets cfg(kani) for the path dependency /repo; native replay/smoke builds use RUSTFLAGS='--cfg corgi_verif'",
            "baseline_off_cmd": "cd /repo && cargo test --workspace --no-fail-fast --offline",
            "source_commits": hooks,
            "add_only": True,
        },
        "engines": [{"name": "kani-cbmc", "path": "/verif/check", "serves_properties": sorted(P),
                     "kind_free_text": "bounded symbolic execution of the compiled real code (Kani 0.68 -> CBMC 6.11 -> CaDiCaL), one solver query per enumerated skeleton, counterexamples replayed on the native build"}],
        "checks": [],
        "not_applicable": [],
        "notes": "see DESIGN.md (section 0 for the build-phase status); seeded/ holds 38 independently written breaking changes with what catches them",
    }
    for p in props:
        pid = p["id"]
        if pid not in P:
            m["not_applicable"].append({"property_id": pid, "reason": "not claimed"})
            continue
        text, note = P[pid]
        m["checks"].append({
            "property_id": pid,
            "quick_cmd": "./check %s --tier quick" % pid,
            "thorough_cmd": "./check %s --tier thorough" % pid,
            "evidence_file": "/verif/evidence/%s.json" % pid,
            "replay_cmd_template": "./check %s --replay {path}" % pid,
            "engine": "kani-cbmc",
            "level_claimed": {"category": "model_checking",
                              "text": "bounded model checking of the real compiled code: " + text,
                              "design_ref": "DESIGN.md section 5 (%s) and section 0" % pid},
            "level_note": BASE + note,
            "technique": TECH,
        })
    json.dump(m, open(os.path.join(ROOT, "MANIFEST.json"), "w"), indent=1)
    print("claimed:", len(m["checks"]), "not applicable:", len(m["not_applicable"]))


if __name__ == "__main__":
    main()
