"""C14 - each training iteration steps parameters along the true current-loss gradient
(explicit iteration sequence, see DESIGN.md closing note)."""


def generate(G):
    def dense(inp_shape, inp, out, act, cost, iters, tier, stubs=()):
        id = "c14_dense_%s_%dto%d_%s_%s_i%d" % (G.sname(inp_shape), inp, out, act.lower(), cost.lower(), iters)
        G.ob(id, "C14", "dense_loop", "c14::dense_loop(s, %s, %d, %d, c15::Act::%s, c14::Cost::%s, %d)" % (G.rs(inp_shape), inp, out, act, cost, iters),
             unwind=max(G.numel(inp_shape), inp * out + out, 4) + 4, tier=tier, stubs=stubs, heavy=True,
             skeleton={"stack": "Dense(%d->%d, %s)" % (inp, out, act), "input": inp_shape, "cost": cost, "iterations": iters,
                       "sequence": "forward -> cost -> backward -> GradientDescent::update(parameters)"},
             domains="initial parameters, every batch, every target: D2 (relu input Dsgn); lr in {0,0.5,1,2}")

    # quick: one iteration each (plus the clean-state assertions that make it the inductive step);
    # two iterations, mse and batches of two cost 10-30 min of symex each: thorough
    dense([1, 2], 2, 1, "Relu", "Bilinear", 1, "quick")
    dense([2], 2, 1, "None", "Bilinear", 1, "quick")
    dense([1, 1], 1, 1, "None", "Bilinear", 2, "quick")
    dense([1, 1], 1, 1, "None", "Mse", 1, "quick", stubs=("powf",))
    dense([2, 1], 1, 1, "None", "Bilinear", 1, "quick")
    dense([1, 1], 1, 1, "None", "Bilinear", 1, "thorough")
    dense([2, 2], 2, 1, "None", "Mse", 1, "thorough", stubs=("powf",))
    dense([1, 2], 2, 1, "None", "Mse", 2, "thorough", stubs=("powf",))
    dense([2, 1], 1, 2, "None", "Bilinear", 2, "thorough")
    dense([1, 1], 1, 1, "Relu", "Mse", 2, "thorough", stubs=("powf",))
    dense([1, 1], 1, 1, "None", "Bilinear", 3, "thorough")

    # through the Model struct itself: bounded attempt (DESIGN.md closing note); 'experimental' until shown to finish
    for inp_shape, i, o, cost, iters in [([1, 1], 1, 1, "Bilinear", 1), ([1, 1], 1, 1, "Bilinear", 2), ([2, 2], 2, 1, "Mse", 1)]:
        G.ob("c14_model_%s_%dto%d_%s_i%d" % (G.sname(inp_shape), i, o, cost.lower(), iters), "C14", "model_loop",
             "c14::model_loop(s, %s, %d, %d, c14::Cost::%s, %d)" % (G.rs(inp_shape), i, o, cost, iters), unwind=8, tier="experimental",
             heavy=True, stubs=("powf",) if cost == "Mse" else (),
             skeleton={"stack": "Model[Dense(%d->%d)]" % (i, o), "input": inp_shape, "cost": cost, "iterations": iters,
                       "sequence": "Model::forward -> Model::backward -> Model::update"}, domains="D2; lr in {0,0.5,1,2}")

    for two in (False, True):
        G.ob("c14_model_update_only_%d" % (2 if two else 1), "C14", "model_update", "c14::model_update_only(s, %s)" % ("true" if two else "false"),
             unwind=8, tier="experimental", heavy=True,
             skeleton={"what": "Model::update alone on layers whose parameters hold harness-supplied gradients", "layers": 2 if two else 1},
             domains="values, gradients D4; lr in {0,0.5,1,2}")

    def conv(inp, filt, stride, iters, tier):
        id = "c14_conv_%s_%s_i%d" % (G.sname(inp), G.sname(filt), iters)
        G.ob(id, "C14", "conv_loop", "c14::conv_loop(s, %s, (%d, %d, %d, %d), (%d, %d), %d)" % (
            G.rs(inp), filt[0], filt[1], filt[2], filt[3], stride[0], stride[1], iters), unwind=16, tier=tier, heavy=True,
            skeleton={"stack": "Conv(%s)" % filt, "input": inp, "cost": "Bilinear", "iterations": iters}, domains="D2")

    conv([1, 2, 2], [1, 1, 1, 2], (1, 1), 1, "quick")
    # two conv layers: the second one's input derivative over a non-square grid of windows
    G.ob("c14_conv2_1x2x3_f1x1_f2x2", "C14", "conv2_loop", "c14::conv2_loop(s, &[1, 2, 3], (1, 1, 1, 1), (1, 1, 2, 2), (1, 1))",
         unwind=16, tier="thorough", heavy=True,
         skeleton={"stack": "Conv(1x1x1x1) -> Conv(1x1x2x2)", "input": [1, 2, 3], "cost": "Bilinear", "iterations": 1,
                   "windows_of_second_layer": "1 x 2 (non-square)"}, domains="D2")
    G.ob("c14_conv2_1x3x2_f1x1_f2x2", "C14", "conv2_loop", "c14::conv2_loop(s, &[1, 3, 2], (1, 1, 1, 1), (1, 1, 2, 2), (1, 1))",
         unwind=16, tier="thorough", heavy=True,
         skeleton={"stack": "Conv(1x1x1x1) -> Conv(1x1x2x2)", "input": [1, 3, 2], "cost": "Bilinear", "iterations": 1,
                   "windows_of_second_layer": "2 x 1 (non-square)"}, domains="D2")
    conv([1, 2, 3], [1, 1, 2, 2], (1, 1), 1, "thorough")
    conv([1, 1, 2, 3], [2, 1, 2, 2], (1, 1), 1, "thorough")     # rank-4 input, two filters, two positions: bias [2,1,1] reduced from [1,2,1,2]
    conv([2, 1, 2, 2], [1, 1, 2, 1], (1, 1), 1, "thorough")
    conv([1, 2, 2], [1, 1, 1, 2], (1, 1), 2, "thorough")
