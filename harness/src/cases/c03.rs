//! C03 — gradients have their array's shape; broadcast contributions are summed, for the
//! first and for every later contribution, on every pass (decided by grad::grad_passes on the
//! Mul / BcastTwice / BcastThrice programs); and the optimizer's positional buffers stay
//! aligned when a broadcast parameter sits between two others (`align`).
use crate::chk;
use crate::source::{Dom, Source};
use crate::util::*;
use corgi::array::Array;
use corgi::numbers::Float;
use corgi::optimizer::gd::GradientDescent;
use corgi::optimizer::Optimizer;

/// x (shape xd, tracked) is broadcast against y (shape yd) `uses` times, one pass, then one
/// optimizer step over `[p0, x, p2]`: every parameter must be combined with its own gradient.
pub fn align<S: Source>(s: &mut S, xd: &[usize], yd: &[usize], uses: usize) {
    let lr = s.lr();
    let mut x = mk(s, xd, Dom::D4).tracked();
    let y = mk(s, yd, Dom::D4);
    let r = if uses == 1 {
        &x * &y
    } else {
        let p = &x * &y;
        let q = &y + &x;
        let r = &p + &q;
        forget((p, q));
        r
    };
    r.backward(None);
    let mut p0 = mk(s, &[2], Dom::D4).tracked();
    let mut p2 = mk(s, &[1, 2], Dom::D4).tracked();
    let g0 = s.vals(2, Dom::D4);
    let g2 = s.vals(2, Dom::D4);
    *p0.gradient_mut() = Some(Array::from((vec![2], g0.clone())));
    *p2.gradient_mut() = Some(Array::from((vec![1, 2], g2.clone())));
    let old0 = p0.values().to_vec();
    let old2 = p2.values().to_vec();
    let oldx = x.values().to_vec();
    let gx: Vec<Float> = match x.gradient().as_ref() {
        Some(g) => g.values().to_vec(),
        None => Vec::new(),
    };
    chk!(gx.len() == oldx.len(), "[c03:grad-len] stored gradient does not have the array's element count");
    // keep the old arrays alive (their drop is not the subject here)
    let keep = (p0.clone(), x.clone(), p2.clone());
    GradientDescent::new(lr).update(vec![&mut p0, &mut x, &mut p2]);
    chk!(dims_eq(x.dimensions(), xd), "[c03:update-dims] updated parameter changed dimensions");
    chk!(dims_eq(p2.dimensions(), &[1, 2]), "[c03:update-dims] updated parameter changed dimensions");
    for i in 0..2 {
        chk!(p0.values()[i] == old0[i] - lr * g0[i], "[c03:update-align] first parameter combined with a foreign gradient");
        chk!(p2.values()[i] == old2[i] - lr * g2[i], "[c03:update-align] parameter after the broadcast one combined with a foreign gradient");
    }
    for i in 0..oldx.len() {
        chk!(x.values()[i] == oldx[i] - lr * gx[i], "[c03:update-align] broadcast parameter combined with a foreign gradient");
    }
    witness();
    forget((keep, r, y, p0, p2, x));
}
