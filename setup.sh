#!/bin/sh
# Run once after a fresh restore, offline: generates the obligations and pre-builds the
# native replayer and the Kani artefacts of the harness crate from files on disk only.
set -e
cd "$(dirname "$0")"
export CARGO_NET_OFFLINE=true
python3 gen/skeletons.py
(cd harness && RUSTFLAGS="--cfg corgi_verif" cargo build --offline --bin replay --target-dir /verif/target/native)
(cd harness && RUSTFLAGS="--cfg corgi_verif" cargo build --offline --release --bin replay --target-dir /verif/target/native)
