"""C12 - handles are transparent: clones, drops and re-binding never change results."""


def generate(G):
    G.ob("c12_paused_and_returned", "C12", "paused_and_returned", "c12::paused_and_returned(s)", unwind=7, tier="quick",
         skeleton={"what": "a paused parameter used directly and through a clone (no gradient either way); a loss built from the handle Model::forward returned deposits the parameter gradients"},
         domains="D4 / D2")
    for e, tier, what in [("None", "quick", "unedited (a*b + a) * b"),
                          ("CloneOperands", "quick", "every operand replaced by a fresh clone"),
                          ("DropAfterUse", "quick", "intermediate handles really dropped after their last use"),
                          ("Rebind", "quick", "one variable re-bound to each new result"),
                          ("RootClone", "quick", "pass started from a clone of the result, which is then dropped"),
                          ("LeafClones", "quick", "program works on clones (dropped afterwards); gradients read through the originals"),
                          ("CloneThenTrack", "quick", "leaves created untracked; the program works on raw.clone().tracked(); gradients read through the raw handles"),
                          ("MetricFirst", "quick", "a custom Array::op without a derivative is applied to the leaves before the program"),
                          ("HoldGradient", "quick", "two passes; the caller keeps a clone of the gradient fetched after the first (the stored buffer is shared)"),
                          ("FreezeClone", "quick", "two passes; between them a clone of a leaf is frozen with untracked() - the original's gradient must survive and accumulate")]:
        G.ob("c12_" + e.lower(), "C12", "edit", "c12::edit(s, c12::Edit::%s)" % e, unwind=6, tier=tier,
             skeleton={"edit": e, "what": what, "program": "(a*b + a) * b on shape [2]"}, domains="values, seed D4")
