//! C14 — each training iteration steps parameters along the true current-loss gradient.
//! Decided on the explicit iteration sequence  layers.forward -> cost -> backward ->
//! optimizer.update(parameters)  (DESIGN.md closing note: `Model`'s own three methods do
//! not encode within reach); see `model_*` for the bounded `Model` obligations.
use crate::alg::Alg;
use crate::chk;
use crate::refmodel::{self, T};
use crate::source::{Dom, Source};
use crate::util::*;
use crate::cases::c15::{act_ref, activation, initializer, Act};
use crate::cases::grad::same;
use corgi::array::Array;
use corgi::cost;
use corgi::layer::conv::Conv;
use corgi::layer::dense::Dense;
use corgi::layer::Layer;
use corgi::numbers::Float;
use corgi::optimizer::gd::GradientDescent;
use corgi::optimizer::Optimizer;

#[derive(Clone, Copy, PartialEq, Eq, Debug)]
pub enum Cost {
    Mse,
    /// harness cost  output * target  (bilinear, exact in D2)
    Bilinear,
}

fn cost_ref(o: &T, t: &T, c: Cost) -> T {
    match c {
        Cost::Mse => {
            let n = o.len() as Float;
            let d = t.sub(o);
            d.mul(&d).scale(1.0 / n)
        }
        Cost::Bilinear => o.mul(t),
    }
}

fn cost_real(o: &Array, t: &Array, c: Cost) -> Array {
    match c {
        Cost::Mse => (cost::mse())(o, t),
        Cost::Bilinear => o * t,
    }
}

/// read the layer's parameters back as reference *variables* (directions in order)
fn params_var(layer: &mut dyn Layer, ndir: usize) -> Vec<T> {
    let mut out = Vec::new();
    let mut first = 0;
    for p in layer.parameters() {
        out.push(T::var(p.dimensions(), p.values().to_vec(), first, ndir));
        first += p.values().len();
    }
    out
}

/// `iterations` iterations of a single dense layer; after every update each parameter
/// equals old - lr * d(loss)/d(parameter), the loss is the current loss, and parameters are
/// tracked, gradient-free and of unchanged dimensions.
pub fn dense_loop<S: Source>(s: &mut S, input: &[usize], inp: usize, out: usize, a: Act, c: Cost, iterations: usize) {
    let dom = Dom::D2;
    let lr = s.lr();
    let gd = GradientDescent::new(lr);
    let init = initializer(s.vals(inp * out + out, dom));
    let act = activation(a);
    let mut layer = Dense::new(inp, out, &init, act.as_ref());
    let ndir = inp * out + out;
    let mut keep: Vec<Array> = Vec::new();
    for _ in 0..iterations {
        let pv = params_var(&mut layer, ndir);
        let x = mk(s, input, if a == Act::Relu { Dom::Sgn } else { dom });
        let xr = T::konst(x.dimensions(), x.values().to_vec(), ndir);
        let y = layer.forward(x.clone());
        let t = mk(s, y.dimensions(), dom);
        let tr = T::konst(t.dimensions(), t.values().to_vec(), ndir);
        let err = cost_real(&y, &t, c);
        err.backward(None);
        let loss = err.sum_all();
        // oracle
        let yr = act_ref(&refmodel::matmul(&xr, false, &pv[0], true, Some(&pv[1])).expect("[ref]"), a);
        let er = cost_ref(&yr, &tr, c);
        let mut lref: Float = 0.0;
        for v in er.v.iter() {
            lref += *v;
        }
        chk!(same(loss, lref, false), "[c14:loss] the iteration's loss is not the loss of the current parameters on the current batch");
        let ones = vec![1.0 as Float; er.len()];
        let g = refmodel::vjp_all(&er, &ones);
        let old: Vec<Vec<Float>> = pv.iter().map(|p| p.v.clone()).collect();
        gd.update(layer.parameters());
        let mut first = 0;
        for (pi, p) in layer.parameters().into_iter().enumerate() {
            chk!(dims_eq(p.dimensions(), &pv[pi].d), "[c14:param-dims] an update changed a parameter's dimensions");
            chk!(p.gradient().is_none(), "[c14:gradient-left] a gradient survived the update");
            for k in 0..old[pi].len() {
                chk!(
                    same(p.values()[k], old[pi][k] - lr * g[first + k], false),
                    "[c14:step] parameter did not move by -lr times the exact gradient of the current loss"
                );
            }
            first += old[pi].len();
            let was = p.stop_tracking();
            if was {
                p.start_tracking();
            }
            chk!(was, "[c14:untracked] an updated parameter is not tracked");
            #[cfg(any(kani, corgi_verif))]
            {
                chk!(p.verif_consumer_count() == 0 && !p.verif_has_pending_delta(), "[c14:residue] state leaked into the next iteration");
                chk!(p.verif_children().is_empty(), "[c14:graph-left] an updated parameter carries a graph");
            }
        }
        keep.push(x);
        keep.push(y);
        keep.push(t);
        keep.push(err);
    }
    witness();
    forget((layer, keep));
    forget((act, init));
}

/// The same iteration *through the `Model` struct* (`Model::forward`, `Model::backward`,
/// `Model::update`): bounded attempt, DESIGN.md closing note.  Also decides the `Model`
/// clauses of C15 (forward is the layer's output; the value returned by backward is the sum
/// of the cost array).
pub fn model_loop<S: Source>(s: &mut S, input: &[usize], inp: usize, out: usize, c: Cost, iterations: usize) {
    use corgi::model::Model;
    let dom = Dom::D2;
    let lr = s.lr();
    let gd = GradientDescent::new(lr);
    let init = initializer(s.vals(inp * out + out, dom));
    let mut layer = Dense::new(inp, out, &init, None);
    let ndir = inp * out + out;
    let costf: corgi::cost::CostFunction = match c {
        Cost::Mse => cost::mse(),
        Cost::Bilinear => Box::new(|o: &Array, t: &Array| o * t),
    };
    // snapshots of the parameters before each iteration are read through a second borrow
    // after the model is done with the layer, so the expected values are accumulated here
    let mut expect: Vec<Vec<Float>> = Vec::new();
    for p in layer.parameters() {
        expect.push(p.values().to_vec());
    }
    let dims: Vec<Vec<usize>> = layer.parameters().iter().map(|p| p.dimensions().to_vec()).collect();
    {
        let mut model = Model::new(vec![&mut layer], &gd, &costf);
        for _ in 0..iterations {
            let mut pv: Vec<T> = Vec::new();
            let mut first = 0;
            for (pi, e) in expect.iter().enumerate() {
                pv.push(T::var(&dims[pi], e.clone(), first, ndir));
                first += e.len();
            }
            let x = mk(s, input, dom);
            let xr = T::konst(x.dimensions(), x.values().to_vec(), ndir);
            let y = model.forward(x.clone());
            let yr = refmodel::matmul(&xr, false, &pv[0], true, Some(&pv[1])).expect("[ref]");
            crate::cases::grad::check_forward(&y, &yr, false);
            let t = mk(s, y.dimensions(), dom);
            let tr = T::konst(t.dimensions(), t.values().to_vec(), ndir);
            let loss = model.backward(t.clone());
            let er = cost_ref(&yr, &tr, c);
            let mut lref: Float = 0.0;
            for v in er.v.iter() {
                lref += *v;
            }
            chk!(same(loss, lref, false), "[c14:loss] the iteration's loss is not the loss of the current parameters on the current batch");
            let ones = vec![1.0 as Float; er.len()];
            let g = refmodel::vjp_all(&er, &ones);
            model.update();
            let mut first = 0;
            for e in expect.iter_mut() {
                for k in 0..e.len() {
                    e[k] = e[k] - lr * g[first + k];
                }
                first += e.len();
            }
            forget((x, y, t));
        }
        forget(model);
    }
    for (pi, p) in layer.parameters().into_iter().enumerate() {
        chk!(dims_eq(p.dimensions(), &dims[pi]), "[c14:param-dims] an update changed a parameter's dimensions");
        chk!(p.gradient().is_none(), "[c14:gradient-left] a gradient survived the update");
        for k in 0..expect[pi].len() {
            chk!(
                same(p.values()[k], expect[pi][k], false),
                "[c14:step] parameter did not move by -lr times the exact gradient of the current loss"
            );
        }
    }
    witness();
    forget(layer);
    forget((init, costf));
}

/// `Model::update` in isolation: the layers' parameters hold harness-supplied gradients; the
/// model's update must step every parameter of every layer by its own gradient and clear it
pub fn model_update_only<S: Source>(s: &mut S, two_layers: bool) {
    use corgi::model::Model;
    let lr = s.lr();
    let gd = GradientDescent::new(lr);
    let i1 = initializer(s.vals(2, Dom::D4));
    let i2 = initializer(s.vals(4, Dom::D4));
    let mut l1 = Dense::new(1, 1, &i1, None);
    let mut l2 = Dense::new(1, 2, &i2, None);
    let costf = cost::mse();
    let mut old: Vec<Vec<Float>> = Vec::new();
    let mut grads: Vec<Vec<Float>> = Vec::new();
    let mut keep: Vec<Array> = Vec::new();
    {
        let mut ps = l1.parameters();
        if two_layers {
            ps.append(&mut l2.parameters());
        }
        for p in ps {
            let g = s.vals(p.values().len(), Dom::D4);
            *p.gradient_mut() = Some(Array::from((p.dimensions().to_vec(), g.clone())));
            old.push(p.values().to_vec());
            grads.push(g);
            keep.push(p.clone());
        }
    }
    {
        let mut model = if two_layers {
            Model::new(vec![&mut l1, &mut l2], &gd, &costf)
        } else {
            Model::new(vec![&mut l1], &gd, &costf)
        };
        model.update();
        forget(model);
    }
    let mut ps = l1.parameters();
    if two_layers {
        ps.append(&mut l2.parameters());
    }
    for (pi, p) in ps.into_iter().enumerate() {
        chk!(p.gradient().is_none(), "[c14:gradient-left] a gradient survived the update");
        for k in 0..old[pi].len() {
            chk!(p.values()[k] == old[pi][k] - lr * grads[pi][k], "[c14:step] parameter did not move by -lr times its own gradient");
        }
        let was = p.stop_tracking();
        if was {
            p.start_tracking();
        }
        chk!(was, "[c14:untracked] an updated parameter is not tracked");
    }
    witness();
    forget((l1, l2, keep));
    forget((i1, i2, costf));
}

/// one iteration of a stack of two conv layers (the first layer's parameters receive their
/// gradient through the second convolution's *input* derivative) with the bilinear cost
pub fn conv2_loop<S: Source>(
    s: &mut S,
    input: &[usize],
    f1: (usize, usize, usize, usize),
    f2: (usize, usize, usize, usize),
    stride2: (usize, usize),
) {
    let dom = Dom::D2;
    let lr = s.lr();
    let gd = GradientDescent::new(lr);
    let n1 = f1.0 * f1.1 * f1.2 * f1.3 + f1.0;
    let n2 = f2.0 * f2.1 * f2.2 * f2.3 + f2.0;
    let i1 = initializer(s.vals(n1, dom));
    let i2 = initializer(s.vals(n2, dom));
    let mut l1 = Conv::new(f1, (1, 1), &i1, None);
    let mut l2 = Conv::new(f2, stride2, &i2, None);
    let ndir = n1 + n2;
    // parameters as reference variables: layer 1 first, then layer 2
    let mut pv: Vec<T> = Vec::new();
    let mut first = 0;
    for p in l1.parameters().into_iter().chain(l2.parameters().into_iter()) {
        pv.push(T::var(p.dimensions(), p.values().to_vec(), first, ndir));
        first += p.values().len();
    }
    let x = mk(s, input, dom);
    let xr = T::konst(x.dimensions(), x.values().to_vec(), ndir);
    let h = l1.forward(x.clone());
    let y = l2.forward(h.clone());
    let t = mk(s, y.dimensions(), dom);
    let tr = T::konst(t.dimensions(), t.values().to_vec(), ndir);
    let err = &y * &t;
    err.backward(None);
    let loss = err.sum_all();
    let hr = refmodel::conv(&xr, &pv[0], (1, 1)).expect("[ref]").add(&pv[1]);
    let yr = refmodel::conv(&hr, &pv[2], stride2).expect("[ref]").add(&pv[3]);
    let er = yr.mul(&tr);
    let mut lref: Float = 0.0;
    for v in er.v.iter() {
        lref += *v;
    }
    chk!(same(loss, lref, false), "[c14:loss] the iteration's loss is not the loss of the current parameters on the current batch");
    let ones = vec![1.0 as Float; er.len()];
    let g = refmodel::vjp_all(&er, &ones);
    let old: Vec<Vec<Float>> = pv.iter().map(|p| p.v.clone()).collect();
    let mut params = l1.parameters();
    params.append(&mut l2.parameters());
    gd.update(params);
    let mut first = 0;
    for (pi, p) in l1.parameters().into_iter().chain(l2.parameters().into_iter()).enumerate() {
        chk!(dims_eq(p.dimensions(), &pv[pi].d), "[c14:param-dims] an update changed a parameter's dimensions");
        chk!(p.gradient().is_none(), "[c14:gradient-left] a gradient survived the update");
        for k in 0..old[pi].len() {
            chk!(
                same(p.values()[k], old[pi][k] - lr * g[first + k], false),
                "[c14:step] parameter did not move by -lr times the exact gradient of the current loss"
            );
        }
        first += old[pi].len();
    }
    witness();
    forget((l1, l2, x, h, y));
    forget((t, err, i1, i2));
}

/// one iteration of a conv layer (1 filter) with the bilinear cost
pub fn conv_loop<S: Source>(s: &mut S, input: &[usize], filt: (usize, usize, usize, usize), stride: (usize, usize), iterations: usize) {
    let dom = Dom::D2;
    let (fc, fd, fr, fcol) = filt;
    let lr = s.lr();
    let gd = GradientDescent::new(lr);
    let init = initializer(s.vals(fc * fd * fr * fcol + fc, dom));
    let mut layer = Conv::new(filt, stride, &init, None);
    let ndir = fc * fd * fr * fcol + fc;
    let mut keep: Vec<Array> = Vec::new();
    for _ in 0..iterations {
        let pv = params_var(&mut layer, ndir);
        let x = mk(s, input, dom);
        let xr = T::konst(x.dimensions(), x.values().to_vec(), ndir);
        let y = layer.forward(x.clone());
        let t = mk(s, y.dimensions(), dom);
        let tr = T::konst(t.dimensions(), t.values().to_vec(), ndir);
        let err = &y * &t;
        err.backward(None);
        let loss = err.sum_all();
        let yr = refmodel::conv(&xr, &pv[0], stride).expect("[ref]").add(&pv[1]);
        let er = yr.mul(&tr);
        let mut lref: Float = 0.0;
        for v in er.v.iter() {
            lref += *v;
        }
        chk!(same(loss, lref, false), "[c14:loss] the iteration's loss is not the loss of the current parameters on the current batch");
        let ones = vec![1.0 as Float; er.len()];
        let g = refmodel::vjp_all(&er, &ones);
        let old: Vec<Vec<Float>> = pv.iter().map(|p| p.v.clone()).collect();
        gd.update(layer.parameters());
        let mut first = 0;
        for (pi, p) in layer.parameters().into_iter().enumerate() {
            chk!(dims_eq(p.dimensions(), &pv[pi].d), "[c14:param-dims] an update changed a parameter's dimensions");
            chk!(p.gradient().is_none(), "[c14:gradient-left] a gradient survived the update");
            for k in 0..old[pi].len() {
                chk!(
                    same(p.values()[k], old[pi][k] - lr * g[first + k], false),
                    "[c14:step] parameter did not move by -lr times the exact gradient of the current loss"
                );
            }
            first += old[pi].len();
        }
        keep.push(x);
        keep.push(y);
        keep.push(t);
        keep.push(err);
    }
    witness();
    forget((layer, keep, init));
}
