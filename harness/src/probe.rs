use crate::cases::grad::{self, leaf, Seed};
use crate::programs::{self, Program};
use crate::source::{Dom, KaniSource};

const LS: [grad::Leaf; 3] = [leaf(&[3], Dom::D4, true), leaf(&[2, 3], Dom::D4, true), leaf(&[2, 3], Dom::D4, false)];

#[kani::proof]
#[kani::unwind(12)]
fn probe_corgi_only() {
    let s = &mut KaniSource;
    let b = grad::build(s, &LS);
    let nodes = programs::BcastTwice.run::<corgi::array::Array>(&b.arrays);
    let root = &nodes[nodes.len() - 1];
    let (arg, _seedv) = grad::draw_seed(s, root, Seed::Explicit(Dom::D4));
    root.backward(arg);
    let g = b.arrays[0].gradient();
    assert!(g.is_some());
    crate::util::witness();
    std::mem::forget(g);
    crate::util::forget((b.arrays, nodes));
}

#[kani::proof]
#[kani::unwind(12)]
fn probe_ref_only() {
    let s = &mut KaniSource;
    let b = grad::build(s, &LS);
    let rnodes = programs::BcastTwice.run::<crate::refmodel::T>(&b.refs);
    let rref = &rnodes[rnodes.len() - 1];
    let e = crate::refmodel::vjp_all(rref, &[1.0, 2.0, 1.0, 1.0, 1.0, 1.0])[0];
    assert!(e >= 0.0);
    crate::util::witness();
    crate::util::forget((b.arrays, rnodes));
}

#[kani::proof]
#[kani::unwind(12)]
fn probe_build_only() {
    let s = &mut KaniSource;
    let b = grad::build(s, &LS);
    assert!(b.ndir == 9);
    crate::util::witness();
    crate::util::forget((b.arrays, b.refs));
}
