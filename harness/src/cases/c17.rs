//! C17 — gradients are linear in the seed; an omitted seed means all ones.
use crate::chk;
use crate::programs::Program;
use crate::source::{Dom, Source};
use crate::util::*;
use crate::cases::grad::*;
use corgi::array::Array;
use corgi::numbers::Float;

fn instance<P: Program>(p: &P, leaves: &[Leaf], vals: &[Vec<Float>]) -> (Vec<Array>, Vec<Array>) {
    let mut arrays = Vec::with_capacity(leaves.len());
    for (i, l) in leaves.iter().enumerate() {
        let a = Array::from((l.d.to_vec(), vals[i].clone()));
        arrays.push(if l.tracked { a.tracked() } else { a });
    }
    let nodes = p.run::<Array>(&arrays);
    (arrays, nodes)
}

/// three fresh instances of the program on the same symbolic inputs, seeded with s1, s2 and
/// alpha*s1 + beta*s2: g3 == alpha*g1 + beta*g2 for every tracked leaf
pub fn linear<P: Program, S: Source>(s: &mut S, p: &P, leaves: &[Leaf]) {
    let mut vals: Vec<Vec<Float>> = Vec::with_capacity(leaves.len());
    for l in leaves {
        vals.push(s.vals(crate::refmodel::numel(l.d), l.dom));
    }
    let (l1, n1) = instance(p, leaves, &vals);
    let (l2, n2) = instance(p, leaves, &vals);
    let (l3, n3) = instance(p, leaves, &vals);
    let root1 = &n1[n1.len() - 1];
    let n = root1.values().len();
    let s1 = s.vals(n, Dom::D4);
    let s2 = s.vals(n, Dom::D4);
    let alpha = s.pick(3) as Float;
    let beta = s.pick(3) as Float;
    let mut s3 = Vec::with_capacity(n);
    for j in 0..n {
        s3.push(alpha * s1[j] + beta * s2[j]);
    }
    let d = root1.dimensions().to_vec();
    root1.backward(Some(Array::from((d.clone(), s1))));
    n2[n2.len() - 1].backward(Some(Array::from((d.clone(), s2))));
    n3[n3.len() - 1].backward(Some(Array::from((d, s3))));
    for (i, l) in leaves.iter().enumerate() {
        if !l.tracked {
            continue;
        }
        let (g1, g2, g3) = (l1[i].gradient(), l2[i].gradient(), l3[i].gradient());
        chk!(g1.is_some() && g2.is_some() && g3.is_some(), "[grad:missing] a tracked leaf received no gradient");
        if let (Some(g1), Some(g2), Some(g3)) = (g1.as_ref(), g2.as_ref(), g3.as_ref()) {
            chk!(dims_eq(g3.dimensions(), l.d), "[grad:dims] gradient dimensions differ from the array's");
            for k in 0..crate::refmodel::numel(l.d) {
                chk!(
                    g3.values()[k] == alpha * g1.values()[k] + beta * g2.values()[k],
                    "[c17:linear] gradient for alpha*s1 + beta*s2 is not alpha*g(s1) + beta*g(s2)"
                );
            }
        }
    }
    witness();
    forget((l1, n1, l2, n2, l3, n3));
}

/// linearity on ONE graph: three passes over the same nodes (gradient taken out in between)
/// seeded s1, s2 and alpha*s1 + beta*s2
pub fn linear_same_graph<P: Program, S: Source>(s: &mut S, p: &P, leaves: &[Leaf], inexact: bool) {
    let mut vals: Vec<Vec<Float>> = Vec::with_capacity(leaves.len());
    for l in leaves {
        vals.push(s.vals(crate::refmodel::numel(l.d), l.dom));
    }
    let (ls, ns) = instance(p, leaves, &vals);
    let root = &ns[ns.len() - 1];
    let n = root.values().len();
    let s1 = s.vals(n, Dom::D4);
    let s2 = s.vals(n, Dom::D4);
    let alpha = s.pick(3) as Float;
    let beta = s.pick(3) as Float;
    let mut s3 = Vec::with_capacity(n);
    for j in 0..n {
        s3.push(alpha * s1[j] + beta * s2[j]);
    }
    let d = root.dimensions().to_vec();
    let mut g: Vec<Vec<Vec<Float>>> = Vec::with_capacity(3);
    for seed in [s1, s2, s3] {
        root.backward(Some(Array::from((d.clone(), seed))));
        let mut per_leaf = Vec::with_capacity(leaves.len());
        for (i, l) in leaves.iter().enumerate() {
            if l.tracked {
                let taken = ls[i].replace_gradient();
                chk!(taken.is_some(), "[grad:missing] a tracked leaf received no gradient");
                per_leaf.push(match taken.as_ref() {
                    Some(a) => a.values().to_vec(),
                    None => Vec::new(),
                });
                forget(taken);
            } else {
                per_leaf.push(Vec::new());
            }
        }
        g.push(per_leaf);
    }
    for (i, l) in leaves.iter().enumerate() {
        if !l.tracked {
            continue;
        }
        for k in 0..g[0][i].len() {
            chk!(
                same(g[2][i][k], alpha * g[0][i][k] + beta * g[1][i][k], inexact),
                "[c17:linear] gradient for alpha*s1 + beta*s2 is not alpha*g(s1) + beta*g(s2)"
            );
        }
    }
    witness();
    forget((ls, ns));
}

/// two unseeded passes on results of different dimensions but equal element count: each gets
/// the ones of its own shape
pub fn default_seed_two_shapes<S: Source>(s: &mut S) {
    let a = mk(s, &[1, 2], Dom::D4).tracked();
    let b = mk(s, &[2, 1], Dom::D4).tracked();
    let w = mk(s, &[2], Dom::D4);
    let r1 = -&a;
    r1.backward(None);
    // [2,1] * [2] -> [2,2]: the result's dimensions differ from r1's, the gradient is summed over rows of ones
    let r2 = &b * &w;
    let r3 = -&b;
    r3.backward(None);
    r2.backward(None);
    let ga = a.gradient();
    let gb = b.gradient();
    chk!(ga.is_some() && gb.is_some(), "[grad:missing] a tracked leaf received no gradient");
    if let (Some(ga), Some(gb)) = (ga.as_ref(), gb.as_ref()) {
        chk!(dims_eq(ga.dimensions(), &[1, 2]) && dims_eq(gb.dimensions(), &[2, 1]), "[grad:dims] gradient dimensions differ from the array's");
        let wsum = w.values()[0] + w.values()[1];
        for k in 0..2 {
            chk!(ga.values()[k] == -1.0, "[c17:default] omitted seed and ones seed give different gradients");
            chk!(gb.values()[k] == -1.0 + wsum, "[c17:default] omitted seed and ones seed give different gradients");
        }
    }
    witness();
    std::mem::forget(ga);
    std::mem::forget(gb);
    forget((a, b, w, r1, r2, r3));
}

/// `backward(None)` gives the same gradients as an explicit seed of ones
pub fn default_seed<P: Program, S: Source>(s: &mut S, p: &P, leaves: &[Leaf]) {
    let mut vals: Vec<Vec<Float>> = Vec::with_capacity(leaves.len());
    for l in leaves {
        vals.push(s.vals(crate::refmodel::numel(l.d), l.dom));
    }
    let (l1, n1) = instance(p, leaves, &vals);
    let (l2, n2) = instance(p, leaves, &vals);
    let root1 = &n1[n1.len() - 1];
    let ones = Array::from((root1.dimensions().to_vec(), vec![1.0; root1.values().len()]));
    root1.backward(None);
    n2[n2.len() - 1].backward(Some(ones));
    for (i, l) in leaves.iter().enumerate() {
        if !l.tracked {
            continue;
        }
        let (g1, g2) = (l1[i].gradient(), l2[i].gradient());
        chk!(g1.is_some() && g2.is_some(), "[grad:missing] a tracked leaf received no gradient");
        if let (Some(g1), Some(g2)) = (g1.as_ref(), g2.as_ref()) {
            chk!(dims_eq(g1.dimensions(), g2.dimensions()), "[c17:default-dims] omitted seed and ones seed give different gradient dimensions");
            chk!(vals_same_bits(g1.values(), g2.values()), "[c17:default] omitted seed and ones seed give different gradients");
        }
    }
    // the root itself holds the seed
    let gr = root1.gradient();
    chk!(gr.is_some(), "[c17:root] the root holds no gradient");
    if let Some(gr) = gr.as_ref() {
        for k in 0..gr.values().len() {
            chk!(gr.values()[k] == 1.0, "[c17:root-ones] with the seed omitted the root's gradient is not all ones");
        }
    }
    witness();
    std::mem::forget(gr);
    forget((l1, n1, l2, n2));
}
