"""C05 - matmul computes the batched, optionally transposed product (forward values)."""


def generate(G):
    L = G.leaf

    def mm_dims(m, k, n, at, bt):
        return ([k, m] if at else [m, k]), ([n, k] if bt else [k, n])

    def mm(id, m, k, n, at, bt, c, tier, lead_a=(), lead_b=(), dom="D4"):
        a, b = mm_dims(m, k, n, at, bt)
        a = list(lead_a) + a
        b = list(lead_b) + b
        ls = [L(a, dom, tracked=False), L(b, dom, tracked=False)]
        if c is not None:
            ls.append(L(c, dom, tracked=False))
        lead = G.bcast(list(lead_a) or [1], list(lead_b) or [1])
        out = G.numel(lead) * m * n
        tot = max(G.numel(a), G.numel(b), out)
        G.ob("c05_" + id, "C05", "product",
             "fwd::forward(s, &programs::Matmul { at: %s, bt: %s, c: %s }, %s, false)" % (
                 str(at).lower(), str(bt).lower(), str(c is not None).lower(), G.leaves(ls)),
             unwind=tot + 3, tier=tier, heavy=(tot > 16),
             skeleton={"m": m, "k": k, "n": n, "at": at, "bt": bt, "c": c, "lead_a": list(lead_a), "lead_b": list(lead_b),
                       "a": a, "b": b}, domains="all operands " + dom)

    tn = lambda at, bt: ("t" if at else "n") + ("t" if bt else "n")
    # quick core
    for at in (False, True):
        for bt in (False, True):
            # rows, inner and columns all different, so that a mixed-up extent cannot go unnoticed
            mm("2x3x1_%s" % tn(at, bt), 2, 3, 1, at, bt, None, "quick")
            mm("2x3x2_%s" % tn(at, bt), 2, 3, 2, at, bt, None, "thorough", dom="D2" if (at or bt) else "D4")
            mm("1x2x3_%s" % tn(at, bt), 1, 2, 3, at, bt, None, "thorough")
    mm("1x2x3_nn_c3", 1, 2, 3, False, False, [3], "quick")
    mm("2x2x2_nt_c2x2", 2, 2, 2, False, True, [2, 2], "quick")
    mm("2x2x2_nt_c1x2", 2, 2, 2, False, True, [1, 2], "quick")
    mm("2x2x2_tn_c1", 2, 2, 2, True, False, [1], "quick")
    mm("1x2x2_nn_l2_both", 1, 2, 2, False, False, None, "quick", lead_a=[2], lead_b=[2])
    mm("2x2x1_nt_l2_left_c1", 2, 2, 1, False, True, [1], "quick", lead_a=[2])
    mm("1x2x2_nn_l2_right", 1, 2, 2, False, False, None, "quick", lead_b=[2])
    mm("1x2x1_nn_l1_l2", 1, 2, 1, False, False, None, "quick", lead_a=[1], lead_b=[2])       # fixed by ff2b503
    mm("1x2x1_nn_l2x1_l2x3", 1, 2, 1, False, False, None, "quick", lead_a=[2, 1], lead_b=[2, 3], dom="D2")
    mm("1x1x2_tn_l2x2_c2", 1, 1, 2, True, False, [2], "thorough", lead_a=[2, 2], lead_b=[2, 2], dom="D2")
    # operands of different rank that both carry leading dimensions (alignment of the shorter one's)
    mm("1x2x1_nn_l1x2_l2", 1, 2, 1, False, False, None, "quick", lead_a=[1, 2], lead_b=[2])
    mm("1x1x2_nn_l2_l1x2", 1, 1, 2, False, False, None, "thorough", lead_a=[2], lead_b=[1, 2])
    mm("1x1x1_nn_l2x1_l3", 1, 1, 1, False, False, None, "thorough", lead_a=[2, 1], lead_b=[3])
    mm("1x1x1_nn_l1x1_l2", 1, 1, 1, False, False, None, "thorough", lead_a=[1, 1], lead_b=[2])
    mm("1x1x1_nt_l3_l1x3_c1", 1, 1, 1, False, True, [1], "thorough", lead_a=[3], lead_b=[1, 3])
    # thorough: sizes x transposes, additive forms, leading patterns
    for (m, k, n) in [(1, 1, 1), (1, 2, 1), (2, 1, 2), (1, 3, 2), (3, 2, 1), (2, 2, 3), (3, 1, 3), (2, 3, 3)]:
        for at in (False, True):
            for bt in (False, True):
                id = "%dx%dx%d_%s" % (m, k, n, tn(at, bt))
                if "c05_" + id not in G._ids:
                    mm(id, m, k, n, at, bt, None, "thorough", dom="D4" if m * k * n <= 8 else "D2")
    for c in ([2], [2, 2], [1, 2], [1], [1, 1]):
        for at in (False, True):
            for bt in (False, True):
                id = "2x2x2_%s_c%s" % (tn(at, bt), G.sname(c))
                if "c05_" + id not in G._ids:
                    mm(id, 2, 2, 2, at, bt, c, "thorough", dom="D2")
    for la, lb in [([2], [2]), ([2], []), ([], [2]), ([1], [2]), ([2], [1]), ([2, 1], [2, 2]), ([1, 2], [2, 2]), ([2, 2], [2]),
                   ([2], [2, 2]), ([3], [3]), ([2, 1], [1, 2])]:
        for at, bt in [(False, False), (False, True), (True, False)]:
            for c in (None, [2]):
                id = "1x2x2_%s_l%s_l%s%s" % (tn(at, bt), G.sname(la), G.sname(lb), "_c2" if c else "")
                if "c05_" + id not in G._ids:
                    mm(id, 1, 2, 2, at, bt, c, "thorough", lead_a=la, lead_b=lb, dom="D2")
    # batched additive term with leading dims
    mm("1x2x2_nn_l2_both_c2x1x2", 1, 2, 2, False, False, [2, 1, 2], "thorough", lead_a=[2], lead_b=[2], dom="D2")

    # rank-1 forms named by the property
    def form(id, prog, ls, tier, what, unwind=12, kind="holds"):
        call = ("fwd::forward(s, &programs::%s, %s, false)" if kind == "holds" else "fwd::refusal(s, &programs::%s, %s)") % (prog, G.leaves(ls))
        G.ob("c05_" + id, "C05", "rank1" if kind == "holds" else "refusal", call, unwind=unwind, tier=tier, kind=kind,
             skeleton={"form": what, "leaves": ls})

    MM = "Matmul { at: %s, bt: %s, c: %s }"
    U = lambda d, dom="D4": L(d, dom, tracked=False)
    form("vec_3_3x2", MM % ("false", "false", "false"), [U([3]), U([3, 2])], "quick", "[k] x [k,n] -> [1,n]")
    form("dot_3_3", MM % ("false", "false", "false"), [U([3]), U([3])], "quick", "[k].[k] -> [1]")
    form("mat_2x3_vec3_bt", MM % ("false", "true", "false"), [U([2, 3]), U([3])], "quick", "[m,k] x [k]^T -> [m,1]")
    form("col_2x1_vec3", MM % ("false", "false", "false"), [U([2, 1]), U([3])], "thorough", "[m,1] x [n] (one-row) -> [m,n]")
    form("vec_2_2x2_bt_c2", MM % ("false", "true", "true"), [U([2]), U([2, 2]), U([2])], "thorough", "[k] x [n,k]^T + c -> [1,n]")
    form("vec_2_l2_2x2", MM % ("false", "false", "false"), [U([2]), U([2, 2, 2], "D2")], "thorough", "[k] x [b,k,n] -> [b,1,n]")
    form("vec3_at_1x2", MM % ("true", "false", "false"), [U([3]), U([1, 2])], "thorough", "[k]^T (column) x [1,n] -> [k,n]")
    # refusals: mismatching inner dimension
    form("ref_2x3_2x2", MM % ("false", "false", "false"), [U([2, 3]), U([2, 2])], "quick", "inner 3 vs 2", kind="refusal")
    form("ref_2x3_2x3", MM % ("false", "false", "false"), [U([2, 3]), U([2, 3])], "quick", "inner 3 vs 2 (needs bt)", kind="refusal")
    form("ref_2x2_3x2_at", MM % ("true", "false", "false"), [U([2, 2]), U([3, 2])], "thorough", "at: inner 2 vs 3", kind="refusal")
    form("ref_2x3_vec3", MM % ("false", "false", "false"), [U([2, 3]), U([3])], "thorough", "[2,3] x one-row [1,3]: inner 3 vs 1", kind="refusal")
    form("ref_2x3_vec4_bt", MM % ("false", "true", "false"), [U([2, 3]), U([4])], "quick", "[2,3] x [4]^T: inner 3 vs 4", kind="refusal")
    form("ref_2x3_vec2_bt", MM % ("false", "true", "false"), [U([2, 3]), U([2])], "thorough", "[2,3] x [2]^T: inner 3 vs 2", kind="refusal")
    form("ref_dot_3_4", MM % ("false", "false", "false"), [U([3]), U([4])], "quick", "dot product of vectors of different lengths (shorter on the left)", kind="refusal")
    form("ref_dot_4_3", MM % ("false", "false", "false"), [U([4]), U([3])], "thorough", "dot product of vectors of different lengths (longer on the left)", kind="refusal")
    form("ref_2x2_vec2", MM % ("false", "false", "false"), [U([2, 2]), U([2])], "thorough", "[2,2] x one-row [1,2]: inner 2 vs 1", kind="refusal")
    form("ref_l2_l3", MM % ("false", "false", "false"), [U([2, 1, 2]), U([3, 2, 1])], "thorough", "leading 2 vs 3", kind="refusal")
    form("ref_c3_for_2cols", MM % ("false", "false", "true"), [U([2, 2]), U([2, 2]), U([3])], "thorough", "additive term [3] for 2 columns", kind="refusal")
