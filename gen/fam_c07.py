"""C07 - reductions, reshape and point-wise functions compute their definitions."""


def generate(G):
    U = lambda d, dom="D4": G.leaf(d, dom, tracked=False)

    def fwd(id, prog, ls, tier, unwind, stubs=(), inexact=False, fam="map", skel=None, heavy=False):
        sk = {"program": prog, "leaves": ls}
        sk.update(skel or {})
        G.ob("c07_" + id, "C07", fam, "fwd::forward(s, &programs::%s, %s, %s)" % (prog, G.leaves(ls), "true" if inexact else "false"),
             unwind=unwind, tier=tier, stubs=stubs, skeleton=sk, heavy=heavy)

    def ref(id, prog, ls, tier, unwind, what):
        G.ob("c07_" + id, "C07", "refusal", "fwd::refusal(s, &programs::%s, %s)" % (prog, G.leaves(ls)), unwind=unwind, tier=tier,
             kind="refusal", skeleton={"program": prog, "leaves": ls, "what": what})

    # sum(k): every k for a few shapes
    quick_sum = {("2x3", 1), ("2x3", 2), ("2x2x2", 2), ("2x2x2", 0), ("2x1x2", 3), ("3", 1), ("2x1x1", 2), ("1x1", 2), ("3x3", 2), ("11", 1)}
    for d in ([3], [2, 3], [2, 2, 2], [2, 1, 2], [1, 3], [2, 2, 1, 2], [2, 2, 2, 2], [1, 1], [3, 2], [2, 1, 1], [1, 1, 1], [2, 1],
              [3, 3], [11], [2, 3, 3], [13]):
        for k in range(0, len(d) + 1):
            n = G.numel(d)
            tier = "quick" if (G.sname(d), k) in quick_sum else "thorough"
            fwd("sum%d_%s" % (k, G.sname(d)), "Sum(%d)" % k, [U(d, "D4")], tier, n + 3, fam="sum", skel={"k": k, "dims": d},
                heavy=(n >= 16))
    G.ob("c07_sumall_2x3", "C07", "sum_all", "fwd::sum_all(s, %s)" % G.leaves([U([2, 3])]), unwind=9, tier="quick",
         skeleton={"dims": [2, 3]})
    G.ob("c07_sumall_2x2x2", "C07", "sum_all", "fwd::sum_all(s, %s)" % G.leaves([U([2, 2, 2])]), unwind=11, tier="thorough",
         skeleton={"dims": [2, 2, 2]})
    G.ob("c07_sumall_3x3", "C07", "sum_all", "fwd::sum_all(s, %s)" % G.leaves([U([3, 3])]), unwind=12, tier="quick",
         skeleton={"dims": [3, 3], "why": "odd element count above 8"})
    G.ob("c07_sumall_17", "C07", "sum_all", "fwd::sum_all(s, %s)" % G.leaves([U([17], "D2")]), unwind=20, tier="thorough",
         skeleton={"dims": [17]})
    # reshape
    for a, b, tier in [([2, 3], [3, 2], "quick"), ([2, 3], [6], "thorough"), ([6], [1, 2, 3], "quick"), ([2, 1, 2], [2, 2], "thorough"),
                       ([2, 2], [1, 4, 1], "thorough"), ([4], [2, 2], "thorough"), ([2, 2, 2], [4, 2], "thorough"), ([1], [1, 1, 1], "thorough")]:
        fwd("reshape_%s_%s" % (G.sname(a), G.sname(b)), "Reshape(%s)" % G.rs(b), [U(a)], tier, G.numel(a) + 3, fam="reshape",
            skel={"from": a, "to": b})
    ref("reshape_ref_2x3_4", "Reshape(&[4])", [U([2, 3])], "quick", 9, "6 elements into 4")
    ref("reshape_ref_2x2_2x3", "Reshape(&[2, 3])", [U([2, 2])], "thorough", 9, "4 elements into 6")
    ref("reshape_ref_2x2_4x0", "Reshape(&[4, 0])", [U([2, 2])], "thorough", 9, "zero dimension")
    # point-wise maps
    fwd("neg_2x2", "Neg", [U([2, 2])], "quick", 7)
    fwd("scale_3_2x2", "Scale(3.0)", [U([2, 2])], "thorough", 7)
    fwd("lscale_half_3", "LScale(0.5)", [U([3])], "quick", 6)
    fwd("scale_m2_1x3", "Scale(-2.0)", [U([1, 3])], "thorough", 6)
    fwd("relu_2x2", "Relu", [U([2, 2], "Sgn")], "quick", 7)
    fwd("relu_3", "Relu", [U([3], "Sgn")], "thorough", 6)
    fwd("powf3_2x2", "Powf(3.0)", [U([2, 2])], "quick", 7, stubs=("powf",))
    fwd("powf_half_3", "Powf(0.5)", [U([3], "Base")], "thorough", 6, stubs=("powf",))
    fwd("powf_m1_3", "Powf(-1.0)", [U([3], "Pos")], "quick", 6, stubs=("powf",))
    fwd("powf_m2_2", "Powf(-2.0)", [U([2], "Pos")], "thorough", 6, stubs=("powf",))
    fwd("powf0_2", "Powf(0.0)", [U([2])], "thorough", 6, stubs=("powf",))
    # the point-wise definitions do not depend on tracking: tracked operands, zero bases included
    fwd("powf_half_tracked_2", "Powf(0.5)", [G.leaf([2], "Sq", tracked=True)], "quick", 6, stubs=("powf",))
    fwd("powf0_tracked_2", "Powf(0.0)", [G.leaf([2], "D4", tracked=True)], "thorough", 6, stubs=("powf",))
    fwd("powf3_tracked_2", "Powf(3.0)", [G.leaf([2], "D4", tracked=True)], "thorough", 6, stubs=("powf",))
    fwd("softmax_tracked_1x2x2", "Softmax", [G.leaf([1, 2, 2], "D2", tracked=True)], "thorough", 9, stubs=("exp", "powf"), inexact=True)
    fwd("sum1_tracked_2x2", "Sum(1)", [G.leaf([2, 2], "D4", tracked=True)], "thorough", 8)
    fwd("ln_2x2", "Ln", [U([2, 2], "Pos")], "quick", 7, stubs=("ln",))
    fwd("exp_2x2", "Exp", [U([2, 2])], "quick", 7, stubs=("exp",))
    fwd("recip_2x2", "Recip", [U([2, 2], "Pos")], "quick", 7)
    fwd("sigmoid_2x2", "Sigmoid", [U([2, 2])], "quick", 7, stubs=("exp",), inexact=True)
    fwd("softmax_2x2", "Softmax", [U([2, 2], "D2")], "quick", 9, stubs=("exp",), inexact=True)
    fwd("softmax_3", "Softmax", [U([3], "D2")], "thorough", 9, stubs=("exp",), inexact=True)
    fwd("softmax_1x2x2", "Softmax", [U([1, 2, 2], "D2")], "quick", 9, stubs=("exp",), inexact=True)
    G.ob("c07_softmax_rows_2x2", "C07", "softmax_rows", "fwd::softmax_rows(s, %s)" % G.leaves([U([2, 2])]), unwind=9, tier="quick",
         stubs=("exp",), skeleton={"dims": [2, 2]}, domains="D4 (exp table)")
    G.ob("c07_softmax_rows_1x3", "C07", "softmax_rows", "fwd::softmax_rows(s, %s)" % G.leaves([U([1, 3])]), unwind=9, tier="thorough",
         stubs=("exp",), skeleton={"dims": [1, 3]}, domains="D4 (exp table)")
    # full-width scalar kernels (every f64/f32 bit pattern), shape [1]
    fwd("full_neg", "Neg", [U([1], "Full")], "thorough", 4, fam="fullwidth")
    fwd("full_relu", "Relu", [U([1], "Full")], "thorough", 4, fam="fullwidth")
