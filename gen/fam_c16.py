"""C16 - construction, row-major layout, indexing and equality are consistent."""


def generate(G):
    for rank in (1, 2, 3, 4):
        for mx, tier in ((5, "quick"), (8, "thorough")):
            G.ob("c16_index_r%d_max%d" % (rank, mx), "C16", "index", "c16::index(s, %d, %d)" % (rank, mx), unwind=rank + 2, tier=tier,
                 skeleton={"rank": rank, "extents": "symbolic in 1..=%d" % mx, "indices": "symbolic in range"},
                 domains="dimensions and indices symbolic")
    for rank, tier in ((1, "quick"), (2, "quick"), (3, "thorough")):
        G.ob("c16_flat_oob_r%d" % rank, "C16", "flat_oob", "c16::flat_oob(s, %d, 4)" % rank, unwind=rank + 2, tier=tier, kind="refusal",
             skeleton={"rank": rank, "extents": "symbolic in 1..=4", "index": "len + {0..3}"})
    for rank, mx, ln, tier in ((1, 4, 3, "quick"), (2, 4, 4, "quick"), (2, 4, 6, "thorough"), (3, 3, 4, "thorough"), (3, 3, 6, "quick"),
                               (4, 2, 4, "thorough"), (2, 4, 1, "thorough"), (1, 8, 6, "thorough")):
        G.ob("c16_from_ok_r%d_len%d" % (rank, ln), "C16", "from_dims_values", "c16::from_dims_values(s, %d, %d, %d, true)" % (rank, mx, ln),
             unwind=ln + 4, tier=tier,
             skeleton={"rank": rank, "extents": "symbolic in 0..=%d" % mx, "length": ln, "side": "valid => constructed as given"})
        G.ob("c16_from_bad_r%d_len%d" % (rank, ln), "C16", "from_dims_values", "c16::from_dims_values(s, %d, %d, %d, false)" % (rank, mx, ln),
             unwind=ln + 4, tier=tier, kind="refusal",
             skeleton={"rank": rank, "extents": "symbolic in 0..=%d" % mx, "length": ln, "side": "invalid => refused"})
    for rank, tier in ((1, "quick"), (3, "quick"), (2, "thorough"), (4, "thorough")):
        G.ob("c16_zeros_zero_dim_r%d" % rank, "C16", "zeros_zero_dim", "c16::zeros_zero_dim(s, %d)" % rank, unwind=rank + 3, tier=tier,
             kind="refusal", skeleton={"rank": rank, "extents": "symbolic in 0..=3, at least one zero", "constructor": "from dimensions alone (zeros)"})
    for depth, tier in ((1, "quick"), (2, "quick"), (3, "quick")):
        G.ob("c16_nested_d%d" % depth, "C16", "nested", "c16::nested(s, %d)" % depth, unwind=10, tier=tier, skeleton={"depth": depth})
    for v, tier in ((0, "quick"), (1, "thorough"), (2, "quick"), (3, "quick"), (4, "thorough")):
        G.ob("c16_nested_mismatch_%d" % v, "C16", "nested_mismatch", "c16::nested_mismatch(s, %d)" % v, unwind=8, tier=tier,
             kind="refusal", skeleton={"variant": v})
    for a, b, tier in (([2, 2], [2, 2], "quick"), ([2, 2], [4], "quick"), ([2, 2], [1, 4], "thorough"), ([3], [3], "thorough"),
                       ([2, 1], [1, 2], "quick"), ([2], [3], "thorough"), ([1, 2, 2], [2, 2], "thorough")):
        G.ob("c16_eq_%s_%s" % (G.sname(a), G.sname(b)), "C16", "equality", "c16::equality(s, %s, %s)" % (G.rs(a), G.rs(b)),
             unwind=max(G.numel(a), G.numel(b)) + 3, tier=tier, skeleton={"a": a, "b": b, "b_state": "tracked, in a graph, holding a gradient"},
             domains="values D2")
