#!/usr/bin/env python3
"""Native smoke run of obligation bodies on pseudo-random in-domain inputs (validates the
harness bodies and the reference model against the real corgi build; NOT a verdict - the
deciding step is the solver).  usage: smoke.py [regex] [--tier quick|all] [--count N]"""
import json, re, subprocess, sys, os
ROOT = os.path.dirname(os.path.abspath(__file__))
sys.path.insert(0, os.path.join(ROOT, "gen"))
import skeletons
HARNESS = os.environ.get("VERIF_SCRATCH_HARNESS", os.path.join(ROOT, "harness"))
OUT = os.environ.get("VERIF_SCRATCH_OUT", ROOT)
if "VERIF_SCRATCH_HARNESS" in os.environ:
    obs = json.load(open(os.path.join(HARNESS, "obligations.json")))
else:
    obs = skeletons.emit()
rx = re.compile(sys.argv[1]) if len(sys.argv) > 1 and not sys.argv[1].startswith("--") else None
tier = "quick"
count = 40
for i, a in enumerate(sys.argv):
    if a == "--tier":
        tier = sys.argv[i + 1]
    if a == "--count":
        count = int(sys.argv[i + 1])
f32 = "--f32" in sys.argv
tdir = os.path.join(OUT, "target/native-f32" if f32 else "target/native")
env = dict(os.environ, RUSTFLAGS="--cfg corgi_verif", CARGO_NET_OFFLINE="true")
p = subprocess.run(["cargo", "build", "--offline", "--bin", "replay", "--target-dir", tdir] + (["--features", "f32"] if f32 else []),
                   cwd=HARNESS, env=env, stdout=subprocess.PIPE, stderr=subprocess.STDOUT, text=True)
if p.returncode != 0:
    print(p.stdout[-3000:]); sys.exit(2)
bad = 0
n = 0
for o in obs:
    if rx and not rx.search(o["id"]):
        continue
    if tier == "quick" and o["tier"] != "quick":
        continue
    if "Full" in o["call"]:
        continue
    r = subprocess.run([os.path.join(tdir, "debug/replay"), "--smoke", o["id"], "1", str(count)],
                       stdout=subprocess.PIPE, stderr=subprocess.STDOUT, text=True)
    try:
        j = json.loads(r.stdout.strip().splitlines()[-1])
    except Exception:
        j = {"error": r.stdout[-300:]}
    n += 1
    kind = o["kind"]
    ok = ("panics" in j) and ((kind == "holds" and j["panics"] == 0) or (kind == "refusal" and j["panics"] == j["runs"] and "refusal-missing" not in j["first"]) or kind == "canary")
    if not ok:
        bad += 1
        print("SMOKE-FAIL", o["id"], kind, j)
print("smoke: %d obligations, %d suspicious" % (n, bad))
sys.exit(1 if bad else 0)
