"""C04 - element-wise operations follow right-aligned broadcasting, or refuse."""

OPS = ["Add", "Sub", "Mul", "Div", "Axpy"]


def generate(G):
    seen = set()

    def values(op, a, b, tier):
        id = "c04_val_%s_%s_%s" % (op.lower(), G.sname(a), G.sname(b))
        if id in seen:
            return
        seen.add(id)
        out = G.bcast(a, b)
        n = G.numel(out)
        G.ob(id, "C04", "values", "c04::values(s, c04::Ew::%s, %s, %s)" % (op, G.rs(a), G.rs(b)),
             unwind=n + 2, tier=tier,
             skeleton={"op": op, "a": a, "b": b, "result": out, "class": G.classify_pair(a, b)},
             domains="a: D4, b: %s%s" % ("Dpos" if op == "Div" else "D4",
                                          ", alpha: {-2,-1,0,0.5,2,3}" if op == "Axpy" else ""))

    def refusal(op, a, b, tier):
        id = "c04_ref_%s_%s_%s" % (op.lower(), G.sname(a), G.sname(b))
        if id in seen:
            return
        seen.add(id)
        G.ob(id, "C04", "refusal", "c04::refusal(s, c04::Ew::%s, %s, %s)" % (op, G.rs(a), G.rs(b)),
             unwind=max(G.numel(a), G.numel(b)) + 2, tier=tier, kind="refusal",
             skeleton={"op": op, "a": a, "b": b})

    # ---- the shape rule with symbolic dimensions (hook), every rank pair <= 4 x 4
    for ra in range(1, 5):
        for rb in range(1, 5):
            tier = "quick" if (ra, rb) in ((1, 1), (2, 3), (4, 2), (3, 3)) else "thorough"
            G.ob("c04_rule_ok_r%d_r%d" % (ra, rb), "C04", "shape_rule", "c04::shape_rule(s, %d, %d, true)" % (ra, rb), unwind=7, tier=tier,
                 skeleton={"ranks": [ra, rb], "extents": "symbolic in 1..=65536", "side": "compatible => pairwise maximum"},
                 domains="dimensions symbolic")
            G.ob("c04_rule_bad_r%d_r%d" % (ra, rb), "C04", "shape_rule", "c04::shape_rule(s, %d, %d, false)" % (ra, rb), unwind=7,
                 tier=tier, kind="refusal", skeleton={"ranks": [ra, rb], "extents": "symbolic in 1..=65536", "side": "incompatible => refused"},
                 domains="dimensions symbolic")

    # ---- full-width anchors (every pair of f64/f32 bit patterns) on shape [1]; div does not finish and is not claimed
    for op, tier in (("Add", "thorough"), ("Sub", "thorough"), ("Mul", "experimental")):
        G.ob("c04_full_%s" % op.lower(), "C04", "fullwidth", "c04::values_full(s, c04::Ew::%s)" % op, unwind=7, tier=tier, heavy=(op == "Mul"),
             f32=False, skeleton={"op": op, "shape": [1], "values": "every bit pattern of both operands"}, domains="full width")

    # ---- quick core: one pair per structural class for add, a handful for the others
    core_add = [
        ([2, 3], [2, 3]),                                  # equal
        ([2, 3], [3]), ([3], [2, 3]),                      # lower rank, either side
        ([1], [2, 2]),                                     # all-unit
        ([2, 3], [1, 3]), ([1, 3], [2, 3]),                # leading unit, same rank
        ([2, 1], [2, 3]),                                  # trailing unit
        ([2, 1], [1, 3]),                                  # both sides broadcast
        ([2, 2, 2], [2, 2]), ([2, 2], [2, 2, 2]),          # rank-2 against rank-3
        ([2, 2, 2], [1, 2]),
        ([2, 1, 2], [2, 2, 2]),                            # interior unit
        ([1, 2, 2], [2, 2, 2]), ([2, 2, 2], [1, 2, 2]),    # leading unit rank 3
        ([2, 1, 2], [1, 2, 1]),                            # alternating
        ([2, 1, 2, 1], [2, 1, 2]), ([2, 2, 1, 2], [2, 1]),  # rank 4
    ]
    for a, b in core_add:
        values("Add", a, b, "quick")
    for a, b in [([3], [3]), ([2, 3], [1]), ([2, 3], [2, 1]), ([2, 2, 2], [2]), ([2, 2, 2], [2, 1, 2]), ([3, 2], [3, 1]), ([3, 1], [1, 2])]:
        values("Add", a, b, "thorough")
    core_other = {"Sub": [([2, 2, 2], [2, 2])], "Mul": [([2, 3], [3]), ([1, 2, 2], [2, 1, 2])],
                  "Div": [([2, 1], [1, 3]), ([2, 2, 2], [2, 2])], "Axpy": [([3], [2, 3]), ([2, 2, 2], [2, 2])]}
    for op in ["Sub", "Mul", "Div", "Axpy"]:
        for a, b in core_other[op]:
            values(op, a, b, "quick")
        for a, b in [([2, 3], [3]), ([2, 2, 2], [2, 2]), ([2, 1], [1, 3]), ([1, 2, 2], [2, 1, 2]), ([3], [2, 3])]:
            values(op, a, b, "thorough")

    core_ref = [([2], [3]), ([2, 3], [2]), ([2, 3], [3, 2]), ([2, 2, 3], [3, 3]),
                ([2, 2, 2], [3, 1, 2]), ([2, 3], [2, 2, 2]), ([2, 1, 3], [2, 2, 2])]
    for a, b in core_ref:
        refusal("Add", a, b, "quick")
    for a, b in [([3, 2], [2, 2]), ([3], [2, 3, 2]), ([1, 2], [3])]:
        refusal("Add", a, b, "thorough")
    refusal("Mul", [2], [3], "quick")
    refusal("Div", [2, 3], [2], "quick")
    refusal("Sub", [3, 2], [2, 2], "quick")
    refusal("Axpy", [2, 3], [3, 2], "quick")

    # ---- thorough pool: every pair of rank <= 3, extents <= 2 for add and mul; rank <= 2,
    # extents <= 3 for add; compatible -> values, incompatible -> refusal
    sh = list(G.shapes(3, 2))
    for a in sh:
        for b in sh:
            if G.bcast(a, b) is not None:
                values("Add", a, b, "thorough")
                values("Mul", a, b, "thorough")
            else:
                refusal("Add", a, b, "thorough")
    sh = list(G.shapes(2, 3))
    for a in sh:
        for b in sh:
            if G.bcast(a, b) is not None:
                values("Add", a, b, "thorough")
            else:
                refusal("Mul", a, b, "thorough")
    # curated rank-4 pairs
    r4 = [([2, 1, 2, 2], [2, 2, 1, 2]), ([1, 2, 1, 2], [2, 1, 2, 1]), ([2, 2, 2, 2], [2, 2]),
          ([2, 2, 2, 2], [2, 1, 2]), ([2, 2], [1, 2, 2, 2]), ([2, 1, 1, 2], [2, 2]), ([1, 1, 2, 2], [2, 1, 2, 2]),
          ([2, 2, 1, 1], [2, 2]), ([2, 3, 1, 2], [3, 2, 1]), ([1, 2, 3, 1], [2, 1, 1, 2])]
    for a, b in r4:
        for op in ["Add", "Mul", "Sub", "Div", "Axpy"]:
            values(op, a, b, "thorough")
    for op in ["Sub", "Div", "Axpy"]:
        for a in G.shapes(3, 2):
            for b in G.shapes(2, 2):
                if G.bcast(a, b) is not None and G.numel(a) >= 2:
                    values(op, a, b, "thorough")
