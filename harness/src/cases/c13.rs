//! C13 — a gradient-descent update is exactly one step per parameter and clears gradients.
use crate::chk;
use crate::source::{Dom, Source};
use crate::util::*;
use corgi::array::Array;
use corgi::numbers::Float;
use corgi::optimizer::gd::GradientDescent;
use corgi::optimizer::Optimizer;

/// `shapes[i]` is parameter i, `has_grad[i]` whether it holds a gradient (else frozen);
/// `repeats` updates in a row (fresh symbolic gradients before each).
pub fn update<S: Source>(s: &mut S, shapes: &[&[usize]], has_grad: &[bool], repeats: usize) {
    update_with(s, shapes, has_grad, repeats, false)
}

/// gradients come from a real pass through an addition: `p`'s, `q`'s and the sum's gradients
/// all sit on one shared buffer; the update must step both and must not panic
pub fn update_after_add<S: Source>(s: &mut S) {
    let lr = s.lr();
    let mut p = mk(s, &[2], Dom::D4).tracked();
    let mut q = mk(s, &[2], Dom::D4).tracked();
    let (op, oq) = (p.values().to_vec(), q.values().to_vec());
    let r = &p + &q;
    let seed = s.vals(2, Dom::D4);
    r.backward(Some(Array::from((vec![2], seed.clone()))));
    let held: Array = p.gradient().as_ref().unwrap().clone();
    GradientDescent::new(lr).update(vec![&mut p, &mut q]);
    for j in 0..2 {
        chk!(p.values()[j] == op[j] - lr * seed[j], "[c13:step] new value is not old - lr * gradient of this parameter");
        chk!(q.values()[j] == oq[j] - lr * seed[j], "[c13:step] new value is not old - lr * gradient of this parameter");
    }
    chk!(p.gradient().is_none() && q.gradient().is_none(), "[c13:gradient-left] a parameter still holds a gradient after the update");
    witness();
    forget((p, q, r, held));
}

/// a hand-supplied gradient whose dimensions differ from the parameter's (same element count):
/// the parameter keeps its own dimensions and is stepped element by element
pub fn update_odd_gradient_shape<S: Source>(s: &mut S) {
    let lr = s.lr();
    let mut p = mk(s, &[2], Dom::D4).tracked();
    let mut q = mk(s, &[1, 2], Dom::D4).tracked();
    let (op, oq) = (p.values().to_vec(), q.values().to_vec());
    let (gp, gq) = (s.vals(2, Dom::D4), s.vals(2, Dom::D4));
    *p.gradient_mut() = Some(Array::from((vec![1, 2], gp.clone())));
    *q.gradient_mut() = Some(Array::from((vec![2], gq.clone())));
    GradientDescent::new(lr).update(vec![&mut p, &mut q]);
    chk!(dims_eq(p.dimensions(), &[2]) && dims_eq(q.dimensions(), &[1, 2]), "[c13:dims] update changed a parameter's dimensions");
    for j in 0..2 {
        chk!(p.values()[j] == op[j] - lr * gp[j], "[c13:step] new value is not old - lr * gradient of this parameter");
        chk!(q.values()[j] == oq[j] - lr * gq[j], "[c13:step] new value is not old - lr * gradient of this parameter");
    }
    witness();
    forget((p, q));
}

/// a parameter that holds a gradient while its tracking is switched off at update time is
/// stepped like any other and comes back tracked
pub fn update_grad_while_untracked<S: Source>(s: &mut S) {
    let lr = s.lr();
    let mut p = mk(s, &[2], Dom::D4).tracked();
    let old = p.values().to_vec();
    let g = s.vals(2, Dom::D4);
    *p.gradient_mut() = Some(Array::from((vec![2], g.clone())));
    p.stop_tracking();
    let keep = p.clone();
    GradientDescent::new(lr).update(vec![&mut p]);
    for j in 0..2 {
        chk!(p.values()[j] == old[j] - lr * g[j], "[c13:step] new value is not old - lr * gradient of this parameter");
    }
    let was = p.stop_tracking();
    if was {
        p.start_tracking();
    }
    chk!(was, "[c13:untracked] an updated parameter is not tracked");
    chk!(p.gradient().is_none(), "[c13:gradient-left] a parameter still holds a gradient after the update");
    witness();
    forget((p, keep));
}

/// `frozen_untracked`: the parameters without a gradient are frozen the way a user freezes
/// them (`stop_tracking()`); "left untouched" then includes the tracking flag
pub fn update_with<S: Source>(s: &mut S, shapes: &[&[usize]], has_grad: &[bool], repeats: usize, frozen_untracked: bool) {
    let lr = s.lr();
    let gd = GradientDescent::new(lr);
    let mut params: Vec<Array> = Vec::with_capacity(shapes.len());
    for (i, d) in shapes.iter().enumerate() {
        let p = mk(s, d, Dom::D4).tracked();
        if frozen_untracked && !has_grad[i] {
            p.stop_tracking();
        }
        params.push(p);
    }
    // handles the caller kept from before the update must stay as they were (see also C08)
    let mut keep: Vec<Array> = Vec::new();
    for _ in 0..repeats {
        let mut old: Vec<Vec<Float>> = Vec::with_capacity(shapes.len());
        let mut grads: Vec<Vec<Float>> = Vec::with_capacity(shapes.len());
        for (i, d) in shapes.iter().enumerate() {
            old.push(params[i].values().to_vec());
            if has_grad[i] {
                let g = s.vals(crate::refmodel::numel(d), Dom::D4);
                *params[i].gradient_mut() = Some(Array::from((d.to_vec(), g.clone())));
                grads.push(g);
            } else {
                grads.push(Vec::new());
            }
            keep.push(params[i].clone());
        }
        {
            let refs: Vec<&mut Array> = params.iter_mut().collect();
            gd.update(refs);
        }
        for (i, d) in shapes.iter().enumerate() {
            let p = &params[i];
            chk!(dims_eq(p.dimensions(), d), "[c13:dims] update changed a parameter's dimensions");
            chk!(p.gradient().is_none(), "[c13:gradient-left] a parameter still holds a gradient after the update");
            let n = crate::refmodel::numel(d);
            chk!(p.values().len() == n, "[c13:len] update changed a parameter's element count");
            for j in 0..n {
                if has_grad[i] {
                    chk!(p.values()[j] == old[i][j] - lr * grads[i][j], "[c13:step] new value is not old - lr * gradient of this parameter");
                } else {
                    chk!(p.values()[j].to_bits() == old[i][j].to_bits(), "[c13:frozen] a parameter without a gradient was changed");
                }
            }
            // tracked: an operation on it yields a tracked result (public API observation)
            let was = p.stop_tracking();
            if was {
                p.start_tracking();
            }
            if has_grad[i] || !frozen_untracked {
                chk!(was, "[c13:untracked] an updated parameter is not tracked");
            } else {
                chk!(!was, "[c13:frozen-flag] a frozen (untracked, gradient-free) parameter was not left untouched: it is tracked now");
            }
        }
    }
    witness();
    forget((params, keep));
}
