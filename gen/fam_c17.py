"""C17 - gradients are linear in the seed; an omitted seed means all ones."""


def generate(G):
    L = G.leaf
    for id, prog, ls, stubs, inexact, tier in [("sigmoid", "Sigmoid", [L([2], "D2")], ("exp",), True, "experimental"),
                                               ("sigmoid1", "Sigmoid", [L([1], "D2")], ("exp",), True, "experimental"),
                                               ("mul", "Mul", [L([2]), L([2])], (), False, "quick"),
                                               ("exp", "Exp", [L([2])], ("exp",), True, "experimental"),
                                               ("relu", "Relu", [L([2], "Sgn")], (), False, "thorough")]:
        G.ob("c17_linear_same_graph_" + id, "C17", "linear_same_graph",
             "c17::linear_same_graph(s, &programs::%s, %s, %s)" % (prog, G.leaves(ls), "true" if inexact else "false"),
             unwind=7, tier=tier, stubs=stubs,
             skeleton={"program": prog, "what": "three passes over the same graph, gradients taken out in between: s1, s2, alpha*s1+beta*s2"})
    G.ob("c17_default_seed_two_shapes", "C17", "default_seed", "c17::default_seed_two_shapes(s)", unwind=7, tier="quick",
         skeleton={"what": "unseeded passes on results of dimensions [1,2], [2,1] and [2,2] in a row"})
    progs = [("mul", "Mul", [L([2]), L([2])], "quick", 6), ("muladdshare", "MulAddShare", [L([2]), L([2])], "quick", 6),
             ("square", "Square", [L([2])], "quick", 6), ("bcast", "Mul", [L([2]), L([1, 2], "D4")], "quick", 8), ("bcast2x2", "Mul", [L([2]), L([2, 2], "D2")], "thorough", 8),
             ("diamond", "Diamond", [L([2], "D2"), L([2], "D2")], "thorough", 6), ("sum1", "Sum(1)", [L([2, 2])], "thorough", 8),
             ("matmul", "Matmul { at: false, bt: true, c: false }", [L([1, 2], "D2"), L([2, 2], "D2")], "thorough", 8),
             ("neg", "Neg", [L([2])], "thorough", 6),
             ("dot", "Matmul { at: false, bt: false, c: false }", [L([2]), L([2])], "quick", 8),
             ("recip", "Recip", [L([2], "Pos")], "quick", 6), ("div", "Div", [L([2]), L([2], "Pos")], "thorough", 6),
             ("powf3", "Powf(3.0)", [L([2])], "thorough", 6), ("untracked", "MulAddShare", [L([2]), L([2], tracked=False)], "thorough", 6)]
    for id, prog, ls, tier, unwind in progs:
        st = ("powf",) if id in ("recip", "div", "powf3", "sumsq") else ()
        G.ob("c17_linear_" + id, "C17", "linear", "c17::linear(s, &programs::%s, %s)" % (prog, G.leaves(ls)), unwind=unwind, tier=tier, stubs=st,
             skeleton={"program": prog, "leaves": ls, "coefficients": "alpha, beta in {0,1,2}"}, domains="values D4/D2, s1, s2 D4")
        G.ob("c17_default_" + id, "C17", "default_seed", "c17::default_seed(s, &programs::%s, %s)" % (prog, G.leaves(ls)),
             unwind=unwind, tier=tier if id in ("mul", "bcast", "muladdshare") else "thorough", stubs=st, skeleton={"program": prog, "leaves": ls})
