//! Exact-on-domain tables for the transcendental functions (DESIGN.md §3.3).
