"""Canaries: deliberately false assertions that every run must report as FAILURE
(DESIGN.md §8) - if the tool chain ever stops reporting them, the run is declared broken."""


def generate(G):
    G.ob("canary_value", "canary", "canary", "canary::value(s)", 4, tier="quick", kind="canary",
         skeleton={"what": "assert!(x != 3.0) on a D4 value must fail"})
    G.ob("canary_underflow", "canary", "canary", "canary::underflow(s)", 4, tier="quick", kind="canary",
         skeleton={"what": "usize underflow inside corgi-independent arithmetic must be reported"})
    G.ob("canary_corgi_panic", "canary", "canary", "canary::corgi_panic(s)", 6, tier="quick", kind="canary",
         skeleton={"what": "a panic inside corgi (flat index out of range) must be reported"})
