//! C17 — gradients are linear in the seed; an omitted seed means all ones.
use crate::chk;
use crate::programs::Program;
use crate::source::{Dom, Source};
use crate::util::*;
use crate::cases::grad::*;
use corgi::array::Array;
use corgi::numbers::Float;

fn instance<P: Program>(p: &P, leaves: &[Leaf], vals: &[Vec<Float>]) -> (Vec<Array>, Vec<Array>) {
    let mut arrays = Vec::with_capacity(leaves.len());
    for (i, l) in leaves.iter().enumerate() {
        let a = Array::from((l.d.to_vec(), vals[i].clone()));
        arrays.push(if l.tracked { a.tracked() } else { a });
    }
    let nodes = p.run::<Array>(&arrays);
    (arrays, nodes)
}

/// three fresh instances of the program on the same symbolic inputs, seeded with s1, s2 and
/// alpha*s1 + beta*s2: g3 == alpha*g1 + beta*g2 for every tracked leaf
pub fn linear<P: Program, S: Source>(s: &mut S, p: &P, leaves: &[Leaf]) {
    let mut vals: Vec<Vec<Float>> = Vec::with_capacity(leaves.len());
    for l in leaves {
        vals.push(s.vals(crate::refmodel::numel(l.d), l.dom));
    }
    let (l1, n1) = instance(p, leaves, &vals);
    let (l2, n2) = instance(p, leaves, &vals);
    let (l3, n3) = instance(p, leaves, &vals);
    let root1 = &n1[n1.len() - 1];
    let n = root1.values().len();
    let s1 = s.vals(n, Dom::D4);
    let s2 = s.vals(n, Dom::D4);
    let alpha = s.pick(3) as Float;
    let beta = s.pick(3) as Float;
    let mut s3 = Vec::with_capacity(n);
    for j in 0..n {
        s3.push(alpha * s1[j] + beta * s2[j]);
    }
    let d = root1.dimensions().to_vec();
    root1.backward(Some(Array::from((d.clone(), s1))));
    n2[n2.len() - 1].backward(Some(Array::from((d.clone(), s2))));
    n3[n3.len() - 1].backward(Some(Array::from((d, s3))));
    for (i, l) in leaves.iter().enumerate() {
        if !l.tracked {
            continue;
        }
        let (g1, g2, g3) = (l1[i].gradient(), l2[i].gradient(), l3[i].gradient());
        chk!(g1.is_some() && g2.is_some() && g3.is_some(), "[grad:missing] a tracked leaf received no gradient");
        if let (Some(g1), Some(g2), Some(g3)) = (g1.as_ref(), g2.as_ref(), g3.as_ref()) {
            chk!(dims_eq(g3.dimensions(), l.d), "[grad:dims] gradient dimensions differ from the array's");
            for k in 0..crate::refmodel::numel(l.d) {
                chk!(
                    g3.values()[k] == alpha * g1.values()[k] + beta * g2.values()[k],
                    "[c17:linear] gradient for alpha*s1 + beta*s2 is not alpha*g(s1) + beta*g(s2)"
                );
            }
        }
    }
    witness();
    forget((l1, n1, l2, n2, l3, n3));
}

/// `backward(None)` gives the same gradients as an explicit seed of ones
pub fn default_seed<P: Program, S: Source>(s: &mut S, p: &P, leaves: &[Leaf]) {
    let mut vals: Vec<Vec<Float>> = Vec::with_capacity(leaves.len());
    for l in leaves {
        vals.push(s.vals(crate::refmodel::numel(l.d), l.dom));
    }
    let (l1, n1) = instance(p, leaves, &vals);
    let (l2, n2) = instance(p, leaves, &vals);
    let root1 = &n1[n1.len() - 1];
    let ones = Array::from((root1.dimensions().to_vec(), vec![1.0; root1.values().len()]));
    root1.backward(None);
    n2[n2.len() - 1].backward(Some(ones));
    for (i, l) in leaves.iter().enumerate() {
        if !l.tracked {
            continue;
        }
        let (g1, g2) = (l1[i].gradient(), l2[i].gradient());
        chk!(g1.is_some() && g2.is_some(), "[grad:missing] a tracked leaf received no gradient");
        if let (Some(g1), Some(g2)) = (g1.as_ref(), g2.as_ref()) {
            chk!(dims_eq(g1.dimensions(), g2.dimensions()), "[c17:default-dims] omitted seed and ones seed give different gradient dimensions");
            chk!(vals_same_bits(g1.values(), g2.values()), "[c17:default] omitted seed and ones seed give different gradients");
        }
    }
    // the root itself holds the seed
    let gr = root1.gradient();
    chk!(gr.is_some(), "[c17:root] the root holds no gradient");
    if let Some(gr) = gr.as_ref() {
        for k in 0..gr.values().len() {
            chk!(gr.values()[k] == 1.0, "[c17:root-ones] with the seed omitted the root's gradient is not all ones");
        }
    }
    witness();
    std::mem::forget(gr);
    forget((l1, n1, l2, n2));
}
